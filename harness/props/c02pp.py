"""C02 / C01 — the combinator engine `prodparser` and its use for media queries.

Model: lean/CssVerif/Model/ProdParser.lean (Prod / Sequence / Choice, the nextProd protocol with explicit frame
counters, the token loop with savedTokens / S / COMMENT / INVALID / EOF, stop / stopAndKeep / stopIfNoMoreMatch /
nextSor / mayEnd, the end-of-input walk), Model/MediaQuery.lean (the grammars of MediaQuery._setMediaText and
MediaList._setMediaText, Prod by Prod), Model/PPSynth.lean (synthetic grammars).

Tie: driver op `pp <grammar> <flags> <tokens>` against
  * `s1` `s2` `s3`: the SAME grammars built here from the real Prod / Sequence / Choice classes and run by the real
    ProdParser.parse on token lists (verdict, the matched Prod of every item, the errors as an enum, savedTokens,
    the global tokenizer's push-back list, how much of the input is left);
  * `mq`: the real `MediaQuery(text)`; `ml`: the real `MediaList(text)` (flag g) and
    `MediaList._setMediaText(token list)`; the model gets the tokens of the real tokenizer.
and `ppshow <grammar> <probe tokens>` against a walk over the real grammar objects (captured from the call of
ProdParser.parse): structure, min/max, flags and the `match` callback of every Prod on a panel of probe tokens.
Inputs: derivations of the grammar, mutations (drop / insert / swap / duplicate / truncate) and token soup.
"""
import logging
import random
import re
import signal
import time

from .. import corr, lib

lib.use_repo()

KINDS = {'IDENT': 'i', 'CHAR': 'c', 'NUMBER': 'n', 'DIMENSION': 'd', 'PERCENTAGE': 'p', 'STRING': 's',
         'UNICODE-RANGE': 'u', 'RATIO': 'r', 'HASH': 'h', 'FUNCTION': 'f', 'URI': 'l', 'ATKEYWORD': 'a', 'S': 'w',
         'COMMENT': 'm', 'EOF': 'e', 'INVALID': 'x'}
TYPES = {v: k for k, v in KINDS.items()}


def _cp():
    import css_parser
    css_parser.log.raiseExceptions = False
    return css_parser


class _Capture(logging.Handler):
    def __init__(self):
        logging.Handler.__init__(self)
        self.msgs = []

    def emit(self, record):
        if record.levelno >= logging.ERROR:
            self.msgs.append(record.getMessage())


_CAP = None
_CALLS = []


def _install():
    """capture error messages and every call of ProdParser.parse (name, productions, result)"""
    global _CAP
    if _CAP is not None:
        return
    cp = _cp()
    _CAP = _Capture()
    for h in list(cp.log._log.handlers):          # the default handler writes every message to stderr
        cp.log._log.removeHandler(h)
    cp.log._log.addHandler(_CAP)
    cp.log.setLevel(logging.ERROR)
    from css_parser import prodparser
    orig = prodparser.ProdParser.parse

    def parse(self, text, name, productions, *a, **k):
        rec = {'name': name, 'prods': productions}
        _CALLS.append(rec)
        r = orig(self, text, name, productions, *a, **k)
        rec['ok'], rec['seq'] = r[0], r[1]
        return r
    prodparser.ProdParser.parse = parse


_TOKREPR = re.compile(r": \('[^']*', .*, \d+, \d+\)$", re.S)


def classify(msgs, names):
    out = ''
    for m in msgs:
        if m.startswith('Invalid token'):
            out += 'I'
        elif m == 'No content to parse.':
            out += 'Z'
        elif m == 'MediaQuery: No content.':
            continue                                  # the list-level check, compared through the verdict
        else:
            name, _, rest = m.partition(': ')
            if name not in names:
                continue                              # nested value parsers (not modelled, never an error here)
            if rest.startswith('Unexpected trailing token'):
                out += 'T'
            elif rest.startswith('No match for None'):
                out += 'O'
            elif rest.startswith('No match'):
                out += 'M'
            elif rest.startswith('Missing token'):
                out += 'P' if _TOKREPR.search(rest) else 'E'
            else:
                out += '?'
    return out or '-'


# ------------------------------------------------------------------ tokens

def _hex(val):
    return '.'.join('%x' % ord(c) for c in val)


def tok_enc(t):
    """(type, value) → driver token `K<hex of value>[=<hex of normalize(value)>]`"""
    from css_parser.helper import normalize
    typ, val = t
    k = KINDS.get(typ, 'o')
    nv = normalize(val)
    return k + _hex(val) + ('' if nv == val else '=' + _hex(nv))


def toks_enc(ts):
    return ','.join(tok_enc(t) for t in ts) if ts else '~'


def model_tokens(text):
    """the tokens ProdParser sees for a string, with the value the `match` callbacks look at"""
    cp = _cp()
    return [(typ, val) for typ, val, _l, _c in cp.tokenize2.Tokenizer().tokenize(text.strip())]


# ------------------------------------------------------------------ synthetic grammars (descriptions)

def P(name, toks, **flags):
    return ('prod', name, toks, flags)


def lit(name, ch, **flags):
    return P(name, ('v', 'IDENT', ch), **flags)


def S1():
    return ('seq', [lit(1, 'a'),
                    ('seq', [lit(2, 'b'), lit(3, 'c', optional=True)], 1, 3),
                    ('choice', [lit(4, 'd'),
                                ('seq', [lit(5, 'e'), lit(6, 'f')], 1, 1),
                                ('seq', [lit(7, 'g', optional=True), lit(8, 'h')], 1, 2)], None),
                    lit(9, 'i', optional=True),
                    ('seq', [lit(10, 'j', optional=True), lit(11, 'k')], 0, None),
                    ('choice', [lit(12, 'l'), lit(13, 'm', optional=True)], None)], 1, 2)


def S2():
    def term():
        return ('choice', [P(1, ('k', ['IDENT']), nextSor=True), P(2, ('k', ['NUMBER']), nextSor=True),
                           P(3, ('k', ['HASH']), nextSor=True, stopIfNoMoreMatch=True)], None)
    operator = ('choice', [P(4, ('k', ['S']), toSeq=False, mayEnd=True), P(5, ('val', ','), optional=True),
                           P(6, ('val', '/'), optional=True)], True)
    return ('seq', [term(),
                    ('seq', [operator, P(7, ('val', ';'), stopAndKeep=True, optional=True), term()], 0, None),
                    P(8, ('val', ')'), stop=True, optional=True)], 1, 1)


def S3():
    def num():
        return ('k', ['NUMBER', 'DIMENSION'])
    return ('seq', [P(1, ('k', ['FUNCTION'])),
                    P(2, ('k', ['S']), optional=True, mayEnd=True),
                    P(3, num()),
                    ('seq', [P(4, ('k', ['S']), mayEnd=True),
                             ('choice', [('seq', [P(5, ('kv', 'CHAR', ['*', '/'])), P(6, ('k', ['S']), optional=True, mayEnd=True)], 1, 1),
                                         ('seq', [P(7, ('kv', 'CHAR', ['+', '-'])), P(8, ('k', ['S']), mayEnd=True)], 1, 1),
                                         P(9, ('val', ')'), stop=True, mayEnd=True)], None),
                             P(3, num(), optional=True)], 0, None),
                    P(9, ('val', ')'), stop=True)], 1, 1)


def S4():
    return ('seq', [lit(1, 'a', optional=True)], 0, None)


SYNTH = {'s1': S1, 's2': S2, 's3': S3, 's4': S4}
SYNTH_FLAGS = {'s1': ['-', 'k', 'e', 'ke'], 's2': ['-', 'k', 'e'], 's3': ['c', 'ck', '-'], 's4': ['-']}


def matcher(spec):
    from css_parser.helper import normalize
    kind = spec[0]
    if kind == 'v':
        return lambda t, v: t == spec[1] and normalize(v) == spec[2]
    if kind == 'k':
        return lambda t, v: t in spec[1]
    if kind == 'val':
        return lambda t, v: v == spec[1]
    if kind == 'kv':
        return lambda t, v: t == spec[1] and normalize(v) in spec[2]
    raise ValueError(spec)


def sample(spec, rnd):
    """a token matching the spec"""
    kind = spec[0]
    if kind == 'v':
        return (spec[1], spec[2])
    if kind == 'k':
        typ = rnd.choice(spec[1])
        return (typ, {'IDENT': 'x', 'NUMBER': '1', 'DIMENSION': '1px', 'HASH': '#abc', 'S': ' ', 'FUNCTION': 'f('}[typ])
    if kind == 'val':
        return ('CHAR', spec[1])
    if kind == 'kv':
        return (spec[1], rnd.choice(spec[2]))
    raise ValueError(spec)


def build(desc, recorder):
    """the real objects for a description; every Prod reports the item it appended through `toStore`"""
    from css_parser.prodparser import Prod, Sequence, Choice
    if desc[0] == 'prod':
        _, name, spec, flags = desc
        return Prod(name='p%d' % name, match=matcher(spec), toStore=recorder(name), **flags)
    if desc[0] == 'seq':
        _, items, mn, mx = desc
        return Sequence(*[build(i, recorder) for i in items], minmax=lambda: (mn, mx))
    _, items, opt = desc
    if opt is None:
        return Choice(*[build(i, recorder) for i in items])
    return Choice(*[build(i, recorder) for i in items], optional=opt)


class CountIter(object):
    """token source that is neither list nor generator (handed through by `_texttotokens`), counting what is read"""

    def __init__(self, toks):
        self.toks = toks
        self.pos = 0

    def __iter__(self):
        return self

    def __next__(self):
        if self.pos >= len(self.toks):
            raise StopIteration
        self.pos += 1
        return self.toks[self.pos - 1]
    next = __next__


def run_synth(gid, flags, toks):
    """ProdParser().parse(tokens, gid, real grammar) → the canonical line of the driver"""
    cp = _cp()
    _install()
    from css_parser import prodparser
    names = {}

    def recorder(name):
        def store(st, item):
            names[id(item)] = (name, item)
        return store
    g = build(SYNTH[gid](), recorder)
    del prodparser.savedTokens[:]
    prodparser.tokenizer.clear()
    _CAP.msgs = []
    src = CountIter([(t, v, 1, 1) for t, v in toks])
    ok, seq, store, unused = prodparser.ProdParser().parse(src, gid, g, keepS='k' in flags, checkS='c' in flags,
                                                           emptyOk='e' in flags)
    saved = [(t[0], t[1]) for t in reversed(prodparser.savedTokens)]
    pushed = [(t[0], t[1]) for t in prodparser.tokenizer._pushed]
    del prodparser.savedTokens[:]
    prodparser.tokenizer.clear()
    empty = store is None and unused is None
    items = []
    for it in seq:
        if isinstance(it.value, cp.css.CSSComment):
            items.append('C')
        elif id(it) in names and names[id(it)][1] is it:
            items.append('P%d%s' % (names[id(it)][0], KINDS.get(it.type, 'o')))
        else:
            items.append('S')
    return 'ok %d %s %s %s %s %d%s' % (ok, '.'.join(items) or '-', classify(_CAP.msgs, (gid,)), toks_enc(saved),
                                       toks_enc(pushed), len(src.toks) - src.pos, ' empty' if empty else '')


# ------------------------------------------------------------------ generators for the synthetic grammars

def derive(desc, rnd, out):
    if desc[0] == 'prod':
        out.append(sample(desc[2], rnd))
    elif desc[0] == 'seq':
        _, items, mn, mx = desc
        hi = mn + 2 if mx is None else mx
        for _ in range(rnd.randint(mn, max(mn, min(hi, mn + 2)))):
            for it in items:
                if it[0] == 'prod' and it[3].get('optional') and rnd.random() < 0.5:
                    continue
                if it[0] == 'seq' and it[2] == 0 and rnd.random() < 0.3:
                    continue
                derive(it, rnd, out)
    else:
        _, items, opt = desc
        if opt and rnd.random() < 0.3:
            return
        derive(rnd.choice(items), rnd, out)


def alphabet(desc, acc):
    if desc[0] == 'prod':
        acc.append(desc[2])
    else:
        for it in desc[1]:
            alphabet(it, acc)
    return acc


JUNK = [('S', ' '), ('COMMENT', '/*c*/'), ('EOF', ''), ('INVALID', '"x'), ('CHAR', ','), ('CHAR', '/'), ('CHAR', ';'),
        ('CHAR', ')'), ('IDENT', 'zz'), ('NUMBER', '7'), ('S', '\n'), ('CHAR', '{'), ('STRING', '"s"'), ('URI', 'url(x)'),
        ('HASH', '#abc'), ('CHAR', '{'), ('IDENT', 'A'), ('IDENT', '\\b'), ('IDENT', 'K'), ('IDENT', '\\,')]


def mutate(toks, rnd, alpha):
    toks = list(toks)
    kind = rnd.choice(['drop', 'insert', 'swap', 'dup', 'trunc', 'junk', 'ws'])
    if kind == 'drop' and toks:
        del toks[rnd.randrange(len(toks))]
    elif kind == 'insert':
        toks.insert(rnd.randint(0, len(toks)), sample(rnd.choice(alpha), rnd))
    elif kind == 'swap' and len(toks) > 1:
        i = rnd.randrange(len(toks) - 1)
        toks[i], toks[i + 1] = toks[i + 1], toks[i]
    elif kind == 'dup' and toks:
        i = rnd.randrange(len(toks))
        toks.insert(i, toks[i])
    elif kind == 'trunc' and toks:
        toks = toks[:rnd.randrange(len(toks))]
    elif kind == 'junk':
        toks.insert(rnd.randint(0, len(toks)), rnd.choice(JUNK))
    else:
        for _ in range(rnd.randint(1, 3)):
            toks.insert(rnd.randint(0, len(toks)), rnd.choice([('S', ' '), ('COMMENT', '/*c*/')]))
    return kind, toks


def synth_cases(gid, n, rnd, dist):
    desc = SYNTH[gid]()
    alpha = alphabet(desc, [])
    flagsets = SYNTH_FLAGS[gid]
    for k in range(n):
        flags = flagsets[k % len(flagsets)]
        r = rnd.random()
        if r < 0.35:
            toks = []
            derive(desc, rnd, toks)
            if gid in ('s2',):
                toks = space_out(toks, rnd)
            what = 'derivation'
        elif r < 0.85:
            toks = []
            derive(desc, rnd, toks)
            if gid in ('s2',):
                toks = space_out(toks, rnd)
            what = 'mutation'
            for _ in range(rnd.randint(1, 2)):
                kind, toks = mutate(toks, rnd, alpha)
                what = 'mutation:' + kind
        else:
            toks = [rnd.choice(JUNK) if rnd.random() < 0.3 else sample(rnd.choice(alpha), rnd)
                    for _ in range(rnd.randint(0, 9))]
            what = 'soup'
        dist[gid + ' ' + what] = dist.get(gid + ' ' + what, 0) + 1
        yield ('synth', gid, flags, tuple(toks))


def space_out(toks, rnd):
    """s2: terms need an operator between them; put an S where two terms meet, sometimes around , and /"""
    out = []
    for i, t in enumerate(toks):
        if out and out[-1][0] in ('IDENT', 'NUMBER', 'HASH') and t[0] in ('IDENT', 'NUMBER', 'HASH'):
            out.append(('S', ' '))
        elif out and rnd.random() < 0.3:
            out.append(('S', ' '))
        out.append(t)
    return out


# ------------------------------------------------------------------ media queries

TYPES_KNOWN = ['all', 'braille', 'handheld', 'print', 'projection', 'speech', 'screen', 'tty', 'tv', 'embossed',
               'amzn-mobi', 'amzn-kf8']
FEATURES = ['min-width', 'max-width', 'color', 'orientation', 'device-aspect-ratio', 'resolution', 'a']
VALUES = ['100px', '1', '50%', 'red', 'landscape', '"s"', '#fff', '#aabbcc', 'U+26', '2.5em', 'RED']
ODD_VALUES = ['#ffff', 'url(x)', '1 2', ',', '!', '@x', '{', '-', 'x(', '16 / 9']


def gen_expr(rnd):
    e = ['(', rnd.choice(FEATURES)]
    if rnd.random() < 0.7:
        e += [':', rnd.choice(VALUES)]
    e.append(')')
    return e


def gen_query(rnd):
    q = []
    r = rnd.random()
    if r < 0.55:
        if rnd.random() < 0.4:
            q.append(rnd.choice(['only', 'not', 'ONLY', 'n\\6ft']))
        q.append(rnd.choice(TYPES_KNOWN + ['PRINT', 'Screen', 'pr\\69nt']))
    elif r < 0.8:
        q += gen_expr(rnd)
    else:
        if rnd.random() < 0.4:
            q.append(rnd.choice(['only', 'not']))
        q.append(rnd.choice(['foo', 'x-y', 'and', 'only', 'not', 'aural', 'bar']))
    for _ in range(rnd.choice([0, 0, 1, 1, 2, 3])):
        q.append(rnd.choice(['and', 'and', 'AND', 'an\\64']))
        q += gen_expr(rnd)
    return q


MQ_JUNK = ['\\(', '\\)', '\\:', '\\,', 'AND', 'Only', 'and', 'only', 'not', 'print', 'foo', '(', ')', ':', ',', ';', '{', '1', '1px', 'red', '"s"', '#ffff', 'url(x)',
           '!', '/*c*/', ' ', '"x', '1/2', 'rgb', '}', '[', 'a', '-', '+', '%']


def mutate_words(ws, rnd):
    ws = list(ws)
    kind = rnd.choice(['drop', 'insert', 'swap', 'dup', 'trunc', 'junk'])
    if kind == 'drop' and ws:
        del ws[rnd.randrange(len(ws))]
    elif kind == 'insert':
        ws.insert(rnd.randint(0, len(ws)), rnd.choice(ws) if ws and rnd.random() < 0.5 else rnd.choice(MQ_JUNK))
    elif kind == 'swap' and len(ws) > 1:
        i = rnd.randrange(len(ws) - 1)
        ws[i], ws[i + 1] = ws[i + 1], ws[i]
    elif kind == 'dup' and ws:
        i = rnd.randrange(len(ws))
        ws.insert(i, ws[i])
    elif kind == 'trunc' and ws:
        ws = ws[:rnd.randrange(len(ws))]
    else:
        ws.insert(rnd.randint(0, len(ws)), rnd.choice(MQ_JUNK + ODD_VALUES))
    return kind, ws


def layout(ws, rnd):
    """join words: a space, nothing, a comment, white space around a comment"""
    mode = rnd.random()
    out = ''
    for i, w in enumerate(ws):
        if i:
            r = rnd.random()
            if mode < 0.5:
                sep = ' '
            elif r < 0.5:
                sep = ' '
            elif r < 0.75:
                sep = ''
            elif r < 0.9:
                sep = '/*c*/'
            else:
                sep = ' /*c*/ '
            # an escape swallows one following white space; keep the words apart
            if sep == '' and (out[-1:].isalnum() or out[-1:] in '-_\\') and (w[:1].isalnum() or w[:1] in '-_\\#'):
                sep = ' '
            out += sep
        out += w
    return out


def has_colorfn(text):
    from css_parser.helper import normalize
    return any(t == 'FUNCTION' and normalize(v) in ('rgb(', 'rgba(', 'hsl(', 'hsla(') for t, v in model_tokens(text))


FIXED_MQ = ['print', 'print and (min-width: 100px)', 'print and(min-width:100px)', '(min-width)', 'print and (min-width)',
            'not', 'not (color)', 'only', 'not print', 'not foo', 'foo', 'foo and (color)', 'print and',
            'print and (color) and', '(color) print', '(color) and print', '(color) and (a:1)', 'only screen and (color)',
            'print (color)', 'print print', 'print, screen', '(color:red)', '(a: 1/2)', '(a:)', '(:1)', '()', '(a:1', '(a', '(',
            'print and (a:1) (b:2)', 'and', 'and (color)', 'only and', 'not and (color)',
            'print /*c*/ and /*d*/ (a /*e*/ : /*f*/ 1 /*g*/) /*h*/', ' ', '/*c*/', 'PRINT AND (A:1)', 'pr\\69nt',
            'print and (a:1 2)', 'print and (a:"s")', 'print and (a: url(x))', 'print and (a:#fff)', 'print and (a:#ffff)',
            'not all and (a:1), print', 'only only', 'not not print', 'print;', 'print{', '(a:1))', ')', 'print )',
            'all and (min-width:1px) and (max-width:2px)', 'print and ;', 'print and 5', 'print and (', 'print and ( ;',
            'foo and ;', 'foo and (a:1 2)', '(a) and ;', '(a) and (b 2)', 'print "x', 'print and "x', 'only "x']
FIXED_ML = ['print and (a:1 2)', 'print and (a:1 2', 'print and ;', 'print and', '(a) and (b 2', '(a) and (b 2)',
            'print, (a) and (b 2', 'print and (a:1 2, tv', 'print and (a 2, tv', 'print and ( , tv', 'print and , tv', 'only',
            'print,', ',print', 'print,,tv', 'print tv', 'print, foo and', 'foo and , tv', '(a) , tv',
            '/*c*/ print /*d*/ , /*e*/ tv', 'not, tv', 'print and 1, tv', 'print and 5', '', '/*c*/', 'all, print',
            'print, print', '(a), (b)', 'foo, bar and (a)', 'print and (a:1) tv', '(a) tv, print', 'print , , tv']


def mq_cases(n, rnd, dist):
    for text in FIXED_MQ:
        dist['mq fixed'] = dist.get('mq fixed', 0) + 1
        yield ('mq', text)
    for _ in range(n):
        r = rnd.random()
        ws = gen_query(rnd)
        what = 'derivation'
        if 0.4 <= r < 0.9:
            for _k in range(rnd.randint(1, 2)):
                kind, ws = mutate_words(ws, rnd)
                what = 'mutation:' + kind
        elif r >= 0.9:
            ws = [rnd.choice(MQ_JUNK) for _k in range(rnd.randint(0, 8))]
            what = 'soup'
        text = layout(ws, rnd)
        if has_colorfn(text):
            continue
        dist['mq ' + what] = dist.get('mq ' + what, 0) + 1
        yield ('mq', text)


def ml_cases(n, rnd, dist):
    for text in FIXED_ML:
        for mode in ('g', '-'):
            dist['ml%s fixed' % mode] = dist.get('ml%s fixed' % mode, 0) + 1
            yield ('ml', mode, text)
    for _ in range(n):
        r = rnd.random()
        ws = []
        for i in range(rnd.choice([1, 1, 2, 2, 3, 4])):
            if i:
                ws.append(',')
            ws += gen_query(rnd)
        what = 'derivation'
        if 0.4 <= r < 0.9:
            for _k in range(rnd.randint(1, 2)):
                kind, ws = mutate_words(ws, rnd)
                what = 'mutation:' + kind
        elif r >= 0.9:
            ws = [rnd.choice(MQ_JUNK) for _k in range(rnd.randint(0, 8))]
            what = 'soup'
        text = layout(ws, rnd)
        if has_colorfn(text):
            continue
        mode = rnd.choice(['g', '-'])
        dist['ml%s %s' % (mode, what)] = dist.get('ml%s %s' % (mode, what), 0) + 1
        yield ('ml', mode, text)


ITEM_TYPES = {'IDENT': 'Pi', 'CHAR': 'Pc', 'RATIO': 'Pr', 'ColorValue': 'N7', 'DIMENSION': 'N8', 'Value': 'N9'}


def seq_items(seq):
    cp = _cp()
    out = []
    for it in seq:
        if isinstance(it.value, cp.css.CSSComment):
            out.append('C')
        elif it.type == 'MediaQuery':
            out.append(('Q', it.value))
        else:
            out.append(ITEM_TYPES.get(it.type, '?' + str(it.type)))
    return out


def canon_model(line):
    """drop what the real objects do not show: the Prod names of plain items, the inside of value objects"""
    line = re.sub(r'N([789])[+-]\([^()]*\)', r'N\1', line)
    line = re.sub(r'P\d+([a-z])', r'P\1', line)
    return line


def run_mq(text):
    cp = _cp()
    _install()
    from css_parser import prodparser
    del prodparser.savedTokens[:]
    prodparser.tokenizer.clear()
    _CAP.msgs = []
    del _CALLS[:]
    q = cp.stylesheets.MediaQuery(text)
    calls = [c for c in _CALLS if c['name'] == 'MediaQuery']
    saved = [(t[0], t[1]) for t in reversed(prodparser.savedTokens)]
    pushed = [(t[0], t[1]) for t in prodparser.tokenizer._pushed]
    del prodparser.savedTokens[:]
    prodparser.tokenizer.clear()
    if not calls:                       # empty text: the setter is not called
        return 'nocall'
    c = calls[0]
    items = [x for x in seq_items(c['seq'])]
    assert q.wellformed == c['ok']
    return '%d %s %s %s %s%s' % (c['ok'], '.'.join(items) or '-', classify(_CAP.msgs, ('MediaQuery',)), toks_enc(saved),
                                 toks_enc(pushed), ' empty' if isinstance(c['seq'], list) else '')


def mq_model_line(out):
    """driver answer → the comparable part"""
    f = canon_model(out).split(' ')
    # status wf items errs saved pushed rest [empty]
    if f[0] != 'ok':
        return out
    return '%s %s %s %s %s%s' % (f[1], f[2], f[3], f[4], f[5], ' empty' if f[-1] == 'empty' else '')


def run_ml(mode, text):
    cp = _cp()
    _install()
    from css_parser import prodparser
    del prodparser.savedTokens[:]
    prodparser.tokenizer.clear()
    _CAP.msgs = []
    del _CALLS[:]
    if mode == 'g':
        ml = cp.stylesheets.MediaList()
        ml.mediaText = text
    else:
        ml = cp.stylesheets.MediaList()
        toks = list(cp.tokenize2.Tokenizer().tokenize(text.strip()))
        ml._setMediaText(toks)
    saved = [(t[0], t[1]) for t in reversed(prodparser.savedTokens)]
    del prodparser.savedTokens[:]
    outer = [c for c in _CALLS if c['name'] == 'MediaList']
    if not outer:
        return 'nocall'
    c = outer[0]
    nested = [k for k in _CALLS if k['name'] == 'MediaQuery']
    items = []
    qi = 0
    for x in seq_items(c['seq']):
        if isinstance(x, tuple):
            k = nested[qi]
            qi += 1
            items.append('N20%s(%s)' % ('+' if k['ok'] else '-', '.'.join(seq_items(k['seq']))))
        else:
            items.append(x)
    return '%d %d %s %s %s%s' % (ml.wellformed, c['ok'], '.'.join(items) or '-',
                                 classify(_CAP.msgs, ('MediaQuery', 'MediaList')), toks_enc(saved),
                                 ' empty' if isinstance(c['seq'], list) else '')


def ml_model_line(out):
    f = canon_model(out).split(' ')
    # verdict status wf items errs saved pushed rest [empty]
    if len(f) < 8 or f[1] != 'ok':
        return out
    return '%s %s %s %s %s%s' % (f[0], f[2], f[3], f[4], f[5], ' empty' if f[-1] == 'empty' else '')


# ------------------------------------------------------------------ correspondence plumbing

def line_of(case):
    if case[0] == 'synth':
        _, gid, flags, toks = case
        return 'pp %s %s %s' % (gid, flags, toks_enc(toks))
    if case[0] == 'mq':
        return 'pp mq - %s' % toks_enc(model_tokens(case[1]))
    if case[0] == 'ml':
        return 'pp ml %s %s' % (case[1], toks_enc(model_tokens(case[2])))
    raise ValueError(case)


def py_of(case):
    if case[0] == 'synth':
        return run_synth(case[1], case[2], list(case[3]))
    if case[0] == 'mq':
        return run_mq(case[1])
    return run_ml(case[1], case[2])


def judge(case, impl, model):
    if case[0] == 'synth':
        return impl != model
    if impl == 'nocall':
        return False
    if case[0] == 'mq':
        return impl != mq_model_line(model)
    return impl != ml_model_line(model)


# ------------------------------------------------------------------ grammar transcription check

PROBES = [('IDENT', w) for w in ['and', 'only', 'not', 'print', 'all', 'amzn-kf8', 'tv', 'foo', 'red', 'a', 'b', 'c', 'd', 'e',
                                 'f', 'g', 'h', 'i', 'j', 'k', 'l', 'm', 'x']] + \
    [('CHAR', c) for c in '():,;/*+-{'] + \
    [('NUMBER', '1'), ('DIMENSION', '1px'), ('PERCENTAGE', '1%'), ('STRING', '"s"'), ('UNICODE-RANGE', 'U+1'),
     ('RATIO', '1/2'), ('HASH', '#fff'), ('HASH', '#ABCDEF'), ('HASH', '#ffff'), ('HASH', '#ggg'), ('FUNCTION', 'rgb('),
     ('FUNCTION', 'hsla('), ('FUNCTION', 'f('), ('URI', 'url(x)'), ('ATKEYWORD', '@x'), ('S', ' '), ('COMMENT', '/*c*/')]

MQ_NAMES = {'ONLY|NOT': 1, 'media_type': 2, 'AND': 3, 'expression': 4, 'media_feature': 5, 'colon': 6, 'ColorValue': 7,
            'Dimension': 8, 'Value': 9, 'ratio': 10, 'expression END': 11, 'MediaQueryStart': 20, 'comma': 21, 'comment': 22}


def show_real(g, names=None):
    from css_parser.prodparser import Prod, Sequence, Choice
    import sys
    if isinstance(g, Prod):
        n = names[g._name] if names else int(g._name[1:])
        fl = ('o' if g.optional else '') + ('s' if g.stop else '') + ('k' if g.stopAndKeep else '') + \
            ('i' if g.stopIfNoMoreMatch else '') + ('n' if g.nextSor else '') + ('e' if g.mayEnd else '') + \
            ('d' if g.toSeq is False else '')
        bits = ''.join('1' if g.matches((t, v, 1, 1)) else '0' for t, v in PROBES)
        return 'p%d[%s](%s)' % (n, fl, bits)
    if isinstance(g, Sequence):
        mx = '*' if g._max == sys.maxsize else str(g._max)
        return 'S%d,%s[%s]' % (g._min, mx, ' '.join(show_real(p, names) for p in g._prods))
    assert isinstance(g, Choice)
    return 'C%s[%s]' % ('o' if g.optional else '', ' '.join(show_real(p, names) for p in g._prods))


def grammar_checks():
    """[(grammar, real, model)] for every grammar; equal strings = same structure, flags and match tables"""
    cp = _cp()
    _install()
    probes = toks_enc(PROBES)
    out = []
    for gid in SYNTH:
        real = show_real(build(SYNTH[gid](), lambda name: (lambda st, item: None)))
        out.append((gid, real, lib.run_driver(['ppshow %s %s' % (gid, probes)])[0]))
    del _CALLS[:]
    cp.stylesheets.MediaQuery('print')
    out.append(('mq', show_real(_CALLS[0]['prods'], MQ_NAMES), lib.run_driver(['ppshow mq %s' % probes])[0]))
    del _CALLS[:]
    cp.stylesheets.MediaList('print')
    out.append(('ml', show_real(_CALLS[0]['prods'], MQ_NAMES), lib.run_driver(['ppshow ml %s' % probes])[0]))
    out.append(('mqp', show_real(_CALLS[1]['prods'], MQ_NAMES), lib.run_driver(['ppshow mqp %s' % probes])[0]))
    return out


def spin_demo(limit=2):
    """the real engine on the all-optional unbounded Sequence (s4): does `parse` come back within `limit` seconds?"""
    _cp()
    from css_parser import prodparser

    class Timeout(Exception):
        pass

    def onalarm(sig, frm):
        raise Timeout()
    g = build(S4(), lambda name: (lambda st, item: None))
    old = signal.signal(signal.SIGALRM, onalarm)
    signal.alarm(limit)
    t0 = time.time()
    try:
        prodparser.ProdParser().parse([('IDENT', 'b', 1, 1)], 's4', g)
        res = 'returned after %.2fs' % (time.time() - t0)
    except Timeout:
        res = 'still running after %ds (model: %s)' % (limit, lib.run_driver(['pp s4 - i62'])[0].split(' ')[0])
    finally:
        signal.alarm(0)
        signal.signal(signal.SIGALRM, old)
    return res


K_TRUNC = 'a token that does not fit inside an and-part ends a query quietly (stopIfNoMoreMatch turns Missing into a stop)'
K_COMMENT = 'the verdict of a media list parsed from a string depends on a comment'
K_ESC = 'a media feature written with an escaped delimiter is stored without the escape'


def oracle(case, impl):
    """on the real code only: (1) a query / list that is declared well-formed has not dropped a token on the way
    (the push-back list is empty and its own text is well-formed again); (2) comments do not change the verdict"""
    cp = _cp()
    if impl == 'nocall' or case[0] == 'synth':
        return None
    f = impl.split(' ')
    if case[0] == 'mq':
        if f[0] == '1':
            q = cp.stylesheets.MediaQuery(case[1])
            again = cp.stylesheets.MediaQuery(q.mediaText)
            if f[4] != '~' or not again.wellformed or again.mediaText != q.mediaText:
                return 'mediaquery: %s: MediaQuery(%r) is well-formed as %r, which is %s' % (
                    K_TRUNC if f[4] != '~' else K_ESC if '\\' in case[1] else 'round trip', case[1], q.mediaText,
                    'well-formed' if again.wellformed else 'not well-formed')
        return None
    if case[1] == 'g':
        plain = re.sub(r'/\*.*?\*/', ' ', case[2])
        if plain != case[2] and plain.strip():
            a = cp.stylesheets.MediaList()
            a.mediaText = case[2]
            b = cp.stylesheets.MediaList()
            b.mediaText = plain
            if a.wellformed != b.wellformed:
                return 'medialist: %s: %r -> %s, %r -> %s' % (K_COMMENT, case[2], a.wellformed, plain, b.wellformed)
    if f[0] == '1':
        ml = cp.stylesheets.MediaList()
        if case[1] == 'g':
            ml.mediaText = case[2]
        else:
            ml._setMediaText(list(cp.tokenize2.Tokenizer().tokenize(case[2].strip())))
        again = cp.stylesheets.MediaList()
        again.mediaText = ml.mediaText
        if not again.wellformed:
            mt = re.sub(r'/\*.*?\*/', '', ml.mediaText).lower().replace(' ', '')
            quiet = 'and,' in mt or mt.endswith('and') or mt.count('(') != mt.count(')')
            return 'medialist: %s: %r is well-formed as %r, which is not well-formed' % (
                K_TRUNC if quiet else K_ESC if '\\' in case[2] else 'round trip', case[2], ml.mediaText)
    return None


def run_corr(tier, seed, broken, findings):
    """correspondence `pp` / `ppshow` + the oracle; used by c02.run"""
    dist = {}
    cs = cases(tier, seed, dist)
    for g, real, model in grammar_checks():
        if real != model:
            broken.append('correspondence op `ppshow %s`: the grammar built by the code is not the modelled one: impl=%s model=%s'
                          % (g, real[:200], model[:200]))
    res = corr.run('pp', cs, line_of, py_of, oracle, judge=judge)
    if res['n_mismatch']:
        c, line, e, g = res['mismatches'][0]
        broken.append('correspondence op `pp` diverges on %d inputs; first %r: impl=%r model=%r' % (res['n_mismatch'], c, e, g))
    for case, why in res['oracle_fail']:
        kind = why.partition(': ')[0]
        key = K_TRUNC if K_TRUNC in why else K_COMMENT if K_COMMENT in why else K_ESC if K_ESC in why else str(case)
        findings.add(kind, key, why)
    return {'n': res['n'], 'n_mismatch': res['n_mismatch'], 'distinct': len(set(cs)), 'distribution': dist,
            'oracle_fail': res['n_oracle_fail'], 'samples': [repr(cs[i])[:120] for i in (0, len(cs) // 2, len(cs) - 1)]}


def cases(tier, seed, dist):
    rnd = random.Random(seed)
    n = {'quick': 1500, 'thorough': 12000}.get(tier, 1500)
    out = []
    for gid in ('s1', 's2', 's3'):
        out += list(synth_cases(gid, n, rnd, dist))
    out += list(mq_cases(2 * n, rnd, dist))
    out += list(ml_cases(2 * n, rnd, dist))
    return out


def selftest(tier='quick', seed=0):
    dist = {}
    cs = cases(tier, seed, dist)
    gc = grammar_checks()
    res = corr.run('pp', cs, line_of, py_of, judge=judge)
    outcomes = {}
    for c in cs[::7]:                      # what the real code answered on a sample: verdicts and errors
        e = py_of(c)
        f = e.split(' ')
        key = '%s %s' % (c[1] if c[0] == 'synth' else c[0],
                         'nocall' if e == 'nocall' else 'wf=%s errs=%s' % ((f[1], f[3]) if c[0] == 'synth' else (f[0], f[2] if c[0] == 'mq' else f[3])))
        outcomes[key] = outcomes.get(key, 0) + 1
    return {'cases': res['n'], 'outcomes': outcomes, 'distinct': len(set(cs)), 'mismatches': res['n_mismatch'],
            'first': [(c, e, g) for c, _l, e, g in res['mismatches'][:8]],
            'grammar_mismatch': [(g, r, m) for g, r, m in gc if r != m],
            'grammars_checked': [g for g, _r, _m in gc],
            'spin': spin_demo(), 'distribution': dist}
