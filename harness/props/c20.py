"""C20 — @import loading is confined to the fetcher and tolerates its failures.

Proof: lean/CssVerif/Props/C20.lean (encoding priority of `_readUrl`, outcome of `_setHref` for every fetcher
behaviour, `urljoin`'s path algorithm against RFC 3986).  Tie: `encsel`, `fetchout`, `urlpath` ops against the
real `_readUrl` / CSSImportRule / `urljoin`.  Search: sheets with 1-3 imports, nesting <= 2, every assignment of
fetcher behaviours, the encoding-source table, relative / absolute / dot-segment hrefs, resolveImports.
"""
import itertools
import random
import time

from .. import corr, lib

lib.use_repo()
PROP = 'C20'
MODEL_FIXED = '1'


def _cp():
    import css_parser
    import logging
    css_parser.log.setLevel(logging.FATAL)
    css_parser.log.raiseExceptions = False
    return css_parser


# ------------------------------------------------------------------ fetcher behaviours

BEHAVIOURS = ['none', 'notPair', 'noContent', 'text', 'bytesOk', 'bytesUndecodable', 'unknownEncoding', 'raisesOSError',
              'raisesIOError', 'raisesValueError']
LOADS = {'text', 'bytesOk'}
CONTENT = 'i%d { top: %dpx }'


def behave(kind, n):
    text = CONTENT % (n, n)
    if kind == 'none':
        return None
    if kind == 'notPair':
        return [('utf-8', text, 1), 'x', 7, (text,)][n % 4]
    if kind == 'noContent':
        return ('utf-8', None)
    if kind == 'text':
        return (None, text)
    if kind == 'bytesOk':
        return (None, text.encode('utf-8'))
    if kind == 'bytesUndecodable':
        return ('utf-8', b'i { content: "\xff\xfe" }')
    if kind == 'unknownEncoding':
        return [('no-such-enc', text.encode()), (None, b'@charset "no-such-enc"; ' + text.encode())][n % 2]
    if kind == 'raisesOSError':
        raise OSError('boom')
    if kind == 'raisesIOError':
        raise IOError('boom')
    if kind == 'raisesValueError':
        raise ValueError('boom')
    raise AssertionError(kind)


def load_case(case):
    """case = ('load', [(href, behaviour, nested or None)])  nested = (href2, behaviour2) imported by the first level"""
    cp = _cp()
    _, imports = case
    table = {}
    top = []
    base = 'http://h/d/s.css'
    for i, (href, kind, nested) in enumerate(imports):
        from css_parser.util import urljoin
        full = urljoin(base, href)
        table[full] = (kind, i, nested)
        top.append('@import "%s";' % href)
    calls = []

    def fetcher(url):
        calls.append(url)
        if url in table:
            kind, i, nested = table[url]
            if nested is not None and kind in LOADS:
                t = '@import "%s"; ' % nested[0] + CONTENT % (i, i)
                return (None, t) if kind == 'text' else (None, t.encode())
            return behave(kind, i)
        for full, (kind, i, nested) in list(table.items()):
            if nested is not None:
                from css_parser.util import urljoin
                if url == urljoin(full, nested[0]):
                    return behave(nested[1], 10 + i)
        return None
    text = ' '.join(top) + ' z { left: 0 }'
    try:
        sheet = cp.CSSParser(fetcher=fetcher).parseString(text, href=base)
    except Exception as e:
        return 'parseString raised %s: %s (imports %r)' % (type(e).__name__, str(e)[:80], imports)
    rules = list(sheet.cssRules)
    if len(rules) != len(imports) + 1:
        return 'sheet %r with fetcher behaviours %r has rules %r' % (text, imports, [r.type for r in rules])
    from css_parser.util import urljoin
    expected_calls = set()
    for (href, kind, nested), r in zip(imports, rules):
        if r.type != r.IMPORT_RULE or r.href != href:
            return 'the @import "%s" (fetcher: %s) is not kept with its href: %r' % (href, kind, getattr(r, 'href', r.cssText))
        full = urljoin(base, href)
        expected_calls.add(full)
        loaded = kind in LOADS
        if bool(r.hrefFound) != loaded:
            return '@import "%s" with fetcher behaviour %s: hrefFound is %r' % (href, kind, r.hrefFound)
        if r.styleSheet is None:
            return '@import "%s" (%s): styleSheet is None' % (href, kind)
        inner = list(r.styleSheet.cssRules)
        if not loaded:
            if inner:
                return '@import "%s" failed (%s) but its sheet holds %r' % (href, kind, [x.cssText for x in inner])
        else:
            if r.styleSheet.href != full:
                return 'imported sheet of "%s" has href %r, expected %r' % (href, r.styleSheet.href, full)
            if nested is None:
                if len(inner) != 1 or inner[0].type != inner[0].STYLE_RULE:
                    return '@import "%s" loaded (%s) but its sheet holds %r' % (href, kind, [x.cssText for x in inner])
            else:
                nfull = urljoin(full, nested[0])
                expected_calls.add(nfull)
                if len(inner) != 2 or inner[0].type != inner[0].IMPORT_RULE or inner[0].href != nested[0]:
                    return 'nested import of "%s": %r' % (href, [x.cssText for x in inner])
                if bool(inner[0].hrefFound) != (nested[1] in LOADS):
                    return 'nested @import "%s" (%s) under "%s": hrefFound %r' % (nested[0], nested[1], href, inner[0].hrefFound)
                if inner[0].styleSheet is not None and nested[1] in LOADS and inner[0].styleSheet.href != nfull:
                    return 'nested imported sheet href %r, expected %r (resolved against the imported sheet)' % (
                        inner[0].styleSheet.href, nfull)
    if set(calls) != expected_calls:
        return 'the fetcher was called with %r, the imports resolve to %r' % (sorted(set(calls)), sorted(expected_calls))
    # reading the result back never fails
    try:
        sheet.cssText
    except Exception as e:
        return 'cssText of the result raised %s' % type(e).__name__
    return ''


# ------------------------------------------------------------------ encoding sources

ENC = {1: 'utf-8', 2: 'latin-1', 3: 'utf-16', 4: 'cp1252', 5: 'ascii'}
ENC_ID = {v: k for k, v in ENC.items()}
ENC_ID['iso8859-1'] = 2


def enc_case(case):
    """('enc', override, http, explicit kind, parent): which encoding is the imported sheet decoded with"""
    cp = _cp()
    _, override, http, explicit, parent = case
    # content is pure ASCII so that every candidate decodes it; the choice shows in sheet.encoding
    body = 'i { top: 1px }'
    if explicit == 'charset':
        content = ('@charset "latin-1"; ' + body).encode('latin-1')
        exp_explicit = 'iso8859-1'
    elif explicit == 'bom':
        content = b'\xef\xbb\xbf' + body.encode('utf-8')
        exp_explicit = 'utf-8'
    else:
        content = body.encode('ascii')
        exp_explicit = None
    top = ('@charset "%s"; ' % parent if parent else '') + '@import "a.css";'

    def fetcher(url):
        return (http, content)
    kw = {'encoding': override} if override else {}
    sheet = cp.CSSParser(fetcher=fetcher).parseString(top.encode(parent or 'ascii') if not override else top.encode(override),
                                                       href='http://h/s.css', **kw)
    imp = [r for r in sheet.cssRules if r.type == r.IMPORT_RULE][0]
    got = imp.styleSheet.encoding
    return got, (override, http, exp_explicit, parent)


def encU_case(case):
    """('encU', override, top http, top explicit kind, http, explicit kind): the TOP sheet is loaded with parseUrl - its
    encoding comes from the argument, the HTTP charset, a BOM / @charset rule or the default - and imports a.css"""
    cp = _cp()
    _, override, thttp, tex, http, ex = case
    top, te = content_of(tex, '@import "a.css"; t { top: 0 }')
    content, e = content_of(ex, 'i { top: 1px }')

    def fetcher(url):
        return (thttp, top) if url.endswith('s.css') else (http, content)
    kw = {'encoding': override} if override else {}
    sheet = cp.CSSParser(fetcher=fetcher).parseUrl('http://h/s.css', **kw)
    imp = [r for r in sheet.cssRules if r.type == r.IMPORT_RULE][0]
    return (sheet.encoding, imp.styleSheet.encoding), (override, thttp, te, http, e)


def encU_oracle(case):
    (gtop, got), (override, thttp, te, http, e) = encU_case(case)
    etop = enc_expected(override, thttp, te, None)
    exp = enc_expected(override, http, e, etop if (override or thttp or te) else None)
    if norm_enc(gtop) != norm_enc(etop):
        return 'parseUrl: top sheet reports %r; override=%r http=%r content=%r give %r' % (gtop, override, thttp, te, etop)
    if not got or norm_enc(got) != norm_enc(exp):
        return ('parseUrl: imported sheet decoded as %r; top sheet %r (override=%r http=%r content=%r), import http=%r content=%r: '
                'the documented priority gives %r' % (got, etop, override, thttp, te, http, e, exp))
    return ''


def encU_line(case):
    # the model's choice for the import, with the top sheet's resolved encoding as the parent
    _, override, thttp, tex, http, ex = case
    te = {'charset': 'latin-1', 'bom': 'utf-8', None: None}[tex]
    parent = enc_expected(None, thttp, te, None) if (thttp or te) else None
    return enc_line(('enc', override, http, ex, parent))


def encU_py(case):
    (_, got), _ = encU_case(case)
    return str(ENC_ID.get(norm_enc(got), 0)) if got else '0'


def enc_expected(override, http, explicit, parent):
    for v in (override, http, explicit, parent):
        if v:
            return v
    return 'utf-8'


def norm_enc(e):
    import codecs
    n = codecs.lookup(e).name
    return 'utf-8' if n == 'utf-8-sig' else n       # the BOM variant of the same encoding


def enc_oracle(case):
    got, (override, http, explicit, parent) = enc_case(case)
    if not bool(got):
        return 'imported sheet has no encoding for sources %r' % (case[1:],)
    exp = enc_expected(override, http, explicit, parent)
    if norm_enc(got) != norm_enc(exp):
        return ('imported sheet decoded as %r; with override=%r http=%r content=%r parent=%r the documented priority gives %r'
                % (got, override, http, explicit, parent, exp))
    return ''


def enc_line(case):
    _, override, http, explicit, parent = case

    def cid(e):
        return str(ENC_ID[norm_enc(e)] if norm_enc(e) in ENC_ID else ENC_ID[e]) if e else '-'
    ex = {'charset': '2', 'bom': '1', None: '-'}[explicit]
    return 'encsel %s %s %s %s' % (cid(override), cid(http), ex, cid(parent))


def enc_py(case):
    got, _ = enc_case(case)
    return str(ENC_ID.get(norm_enc(got), 0))


def content_of(explicit, body):
    if explicit == 'charset':
        return ('@charset "latin-1"; ' + body).encode('latin-1'), 'iso8859-1'
    if explicit == 'bom':
        return b'\xef\xbb\xbf' + body.encode('utf-8'), 'utf-8'
    return body.encode('ascii'), None


def enc2_case(case):
    """('enc2', override, http1, explicit1, parent1, http2, explicit2): encoding of the sheet imported by an
    imported sheet"""
    cp = _cp()
    _, override, http1, ex1, parent, http2, ex2 = case[:7]
    astext = len(case) > 7 and case[7]
    c1, e1 = content_of(ex1, '@import "b.css"; i { top: 1px }')
    if ex1 == 'charset':
        c1 = ('@charset "latin-1"; @import "b.css"; i { top: 1px }').encode('latin-1')
    if astext and ex1 != 'bom':
        # the fetcher hands over text: nothing rewrites an @charset rule in it, so while it is parsed the rule may name
        # another encoding than the one the sheet has (HTTP wins)
        c1 = c1.decode('latin-1')
    c2, e2 = content_of(ex2, 'j { top: 2px }')
    top = ('@charset "%s"; ' % parent if parent else '') + '@import "a.css";'

    def fetcher(url):
        return (http1, c1) if url.endswith('a.css') else (http2, c2)
    kw = {'encoding': override} if override else {}
    sheet = cp.CSSParser(fetcher=fetcher).parseString(top.encode(override or parent or 'ascii'), href='http://h/s.css', **kw)
    a = [r for r in sheet.cssRules if r.type == r.IMPORT_RULE][0].styleSheet
    b = [r for r in a.cssRules if r.type == r.IMPORT_RULE][0].styleSheet
    return b.encoding, (override, http1, e1, parent, http2, e2)


def enc2_oracle(case):
    got, (override, http1, e1, parent, http2, e2) = enc2_case(case)
    if override:
        exp = override
    else:
        exp = enc_expected(None, http2, e2, enc_expected(None, http1, e1, parent) if (http1 or e1 or parent) else None)
    if norm_enc(got) != norm_enc(exp):
        return ('nested imported sheet decoded as %r; override=%r, first level http=%r content=%r parent=%r, second level '
                'http=%r content=%r: the documented priority gives %r' % (got, override, http1, e1, parent, http2, e2, exp))
    return ''


def enc2_line(case):
    _, override, http1, ex1, parent, http2, ex2 = case[:7]

    def cid(e):
        return str(ENC_ID[norm_enc(e)] if norm_enc(e) in ENC_ID else ENC_ID[e]) if e else '-'
    exm = {'charset': '2', 'bom': '1', None: '-'}
    return 'encsel2 %s %s %s %s %s %s' % (cid(override), cid(http1), exm[ex1], cid(parent), cid(http2), exm[ex2])


def enc2_py(case):
    got, _ = enc2_case(case)
    return str(ENC_ID.get(norm_enc(got), 0))


# ------------------------------------------------------------------ urljoin

def url_cases(tier, seed):
    rnd = random.Random(seed + 20)
    segs = ['a', 'b', 'c.css', '..', '.', '', 'd e', 'x.y']
    cases = []
    bases = ['/d/s.css', '/s.css', '/d/e/', '/', '/d/../s.css', '/a//b/s.css', '/d/e/f/g.css']
    rels = ['a.css', '../a.css', './a.css', '../../a.css', '../../../a.css', 'b/../a.css', '/r/a.css', 'b/./c/../a.css', '..', '.',
            'b/', 'b//a.css', '../', './', '/..', '/./a.css', 'a.css/..', '...', '..a', 'b/..', '/a/b/../../..']
    for b in bases:
        for r in rels:
            cases.append(('url', b, r))
    for _ in range(300 if tier == 'quick' else 6000):
        b = '/' + '/'.join(rnd.choice(segs[:3] + segs[6:]) for _ in range(rnd.randint(0, 4)))
        if rnd.random() < 0.3:
            b += '/'
        r = '/'.join(rnd.choice(segs) for _ in range(rnd.randint(1, 5)))
        if rnd.random() < 0.15:
            r = '/' + r
        if r and not r.startswith('//'):        # `//x` is a network-path reference: urllib's, not the path algorithm
            cases.append(('url', b, r))
    return cases


def url_py(case):
    from css_parser.util import urljoin
    from urllib.parse import urlparse
    _, b, r = case
    out = urljoin('http://h' + b, r)
    return lib.enc(urlparse(out).path)


def url_line(case):
    _, b, r = case
    return 'urlpath %s %s' % (lib.enc(b), lib.enc(r))


def rfc_path(base, rel):
    """RFC 3986 5.2: merge + remove_dot_segments"""
    if rel.startswith('/'):
        merged = rel
    else:
        merged = base[:base.rfind('/') + 1] + rel
    out = []
    inp = merged
    while inp:
        if inp.startswith('../'):
            inp = inp[3:]
        elif inp.startswith('./'):
            inp = inp[2:]
        elif inp.startswith('/./'):
            inp = inp[2:]
        elif inp == '/.':
            inp = '/'
        elif inp.startswith('/../'):
            inp = inp[3:]
            if out:
                out.pop()
        elif inp == '/..':
            inp = '/'
            if out:
                out.pop()
        elif inp in ('.', '..'):
            inp = ''
        else:
            i = inp.find('/', 1)
            if i < 0:
                out.append(inp)
                inp = ''
            else:
                out.append(inp[:i])
                inp = inp[i:]
    return ''.join(out)


def rfc_line(case):
    _, b, r = case
    merged = r if r.startswith('/') else b[:b.rfind('/') + 1] + r
    return 'rfcpath %s' % lib.enc(merged)


def rfc_py(case):
    _, b, r = case
    return lib.enc(rfc_path(b, r) or '/')


def url_oracle(case, _e=None):
    """RFC 3986 for absolute base paths and references that stay below the root and have no empty segments"""
    from css_parser.util import urljoin
    from urllib.parse import urlparse
    _, b, r = case
    if '//' in b or '//' in r or '/..' in b or '/./' in b:
        return ''
    want = rfc_path(b, r)
    # climbing above the root is where css_parser deliberately differs (keeps '..')
    depth = 0
    merged = (r if r.startswith('/') else b[:b.rfind('/') + 1] + r)
    for s in merged.split('/'):
        if s == '..':
            depth -= 1
            if depth < 0:
                return ''
        elif s not in ('', '.'):
            depth += 1
    got = urlparse(urljoin('http://h' + b, r)).path
    if got != want:
        return 'urljoin(%r, %r) has path %r, RFC 3986 gives %r' % ('http://h' + b, r, got, want)
    return ''


# ------------------------------------------------------------------ resolveImports

def flat_case(case):
    cp = _cp()
    _, imports = case         # [(media or 'all', loaded?)]
    texts = {}
    top = []
    for i, (media, loaded) in enumerate(imports):
        href = 'f%d.css' % i
        top.append('@import "%s"%s;' % (href, '' if media == 'all' else ' ' + media))
        if loaded:
            texts['http://h/' + href] = CONTENT % (i, i)
    top.append('z { left: 0 }')
    sheet = cp.CSSParser(fetcher=lambda url: (None, texts[url]) if url in texts else None).parseString(
        ' '.join(top), href='http://h/s.css')
    try:
        flat = cp.resolveImports(sheet)
    except Exception as e:
        return 'resolveImports raised %s for %r' % (type(e).__name__, imports)
    # imports that could not be loaded are kept (as @import rules they stay in front, in their order);
    # the loaded ones are inlined in order
    want = ['import:f%d.css' % i for i, (media, loaded) in enumerate(imports) if not loaded]
    for i, (media, loaded) in enumerate(imports):
        if not loaded:
            continue
        elif media == 'all':
            want.append('style:i%d' % i)
        else:
            want.append('media:%s[style:i%d]' % (media, i))
    want.append('style:z')
    got = []
    for r in flat.cssRules:
        if r.type == r.COMMENT:
            continue
        if r.type == r.IMPORT_RULE:
            got.append('import:' + r.href)
        elif r.type == r.STYLE_RULE:
            got.append('style:' + r.selectorText)
        elif r.type == r.MEDIA_RULE:
            got.append('media:%s[%s]' % (r.media.mediaText, ','.join('style:' + c.selectorText for c in r.cssRules
                                                                       if c.type == c.STYLE_RULE)))
        else:
            got.append('other:%d' % r.type)
    if got != want:
        return 'resolveImports of %r gives %r, expected %r' % (' '.join(top), got, want)
    return ''


# ------------------------------------------------------------------ model correspondence of the load outcome

def out_line(case):
    return 'fetchout %s %s' % (MODEL_FIXED, case[1])


def out_py(case):
    r = load_case(('load', [('a.css', case[1], None)]))
    if r:
        return 'escaped' if 'raised' in r else 'other: ' + r[:80]
    return 'loaded' if case[1] in LOADS else 'failedEmpty'


def out_cyclic():
    cp = _cp()
    calls = []

    def fetcher(url):
        calls.append(url)
        return (None, '@import "b.css"; x { top: 0 }') if url.endswith('a.css') else (None, '@import "a.css"; y { top: 0 }')
    try:
        sh = cp.CSSParser(fetcher=fetcher).parseString('@import "a.css";', href='http://h/s.css')
    except RecursionError:
        return 'escaped'
    a = sh.cssRules[0].styleSheet
    b = a.cssRules[0].styleSheet
    back = b.cssRules[0]
    return 'failedEmpty' if (not back.hrefFound and not list(back.styleSheet.cssRules)) else 'loaded'


def oracle(case, _e=None):
    k = case[0]
    if k == 'load':
        return load_case(case)
    if k == 'enc':
        return enc_oracle(case)
    if k == 'enc2':
        return enc2_oracle(case)
    if k == 'encU':
        return encU_oracle(case)
    if k == 'url':
        return url_oracle(case)
    if k == 'flat':
        return flat_case(case)
    raise AssertionError(case)


def gen_cases(tier, seed):
    rnd = random.Random(seed)
    cases = []
    hrefs = ['a.css', 'sub/b.css', '../c.css', '/abs/d.css', './e.css', 'http://other/f.css']
    # every behaviour alone, every pair, sampled triples; nested under every loading behaviour
    for k in BEHAVIOURS:
        for h in hrefs:
            cases.append(('load', ((h, k, None),)))
    for k1, k2 in itertools.product(BEHAVIOURS, repeat=2):
        cases.append(('load', (('a.css', k1, None), ('sub/b.css', k2, None))))
    for k1 in ('text', 'bytesOk'):
        for k2 in BEHAVIOURS:
            for nh in ('n.css', '../n.css', 'deep/n.css', '/n.css'):
                cases.append(('load', (('sub/a.css', k1, (nh, k2)),)))
    for _ in range(200 if tier == 'quick' else 4000):
        n = rnd.randint(1, 3)
        hs = rnd.sample(hrefs, n)
        imps = []
        for h in hs:
            k = rnd.choice(BEHAVIOURS)
            nested = (rnd.choice(['n%d.css', '../n%d.css', 'x/n%d.css']) % len(imps), rnd.choice(BEHAVIOURS)) \
                if k in LOADS and rnd.random() < 0.5 else None
            imps.append((h, k, nested))
        cases.append(('load', tuple(imps)))
    n_load = len(cases)
    encs = [None, 'utf-8', 'latin-1', 'cp1252']
    ecases = []
    for ov in [None, 'latin-1', 'utf-8']:
        for http in encs:
            for ex in [None, 'charset', 'bom']:
                for parent in [None, 'latin-1', 'utf-8', 'cp1252']:
                    ecases.append(('enc', ov, http, ex, parent))
    for ov in [None, 'latin-1']:
        for http1 in [None, 'utf-8', 'cp1252']:
            for ex1 in [None, 'charset']:
                for parent in [None, 'latin-1']:
                    for http2 in [None, 'utf-8', 'cp1252']:
                        for ex2 in [None, 'charset', 'bom']:
                            ecases.append(('enc2', ov, http1, ex1, parent, http2, ex2))
                            if ex1 == 'charset':
                                ecases.append(('enc2', ov, http1, ex1, parent, http2, ex2, True))
    # the top sheet loaded with parseUrl (its own encoding from the argument / HTTP / BOM / @charset / default)
    for ov in [None, 'latin-1']:
        for thttp in [None, 'latin-1', 'cp1252', 'utf-8']:
            for tex in [None, 'charset', 'bom']:
                for http in [None, 'cp1252']:
                    for ex in [None, 'charset', 'bom']:
                        if tex == 'bom' and (ov or thttp):
                            # a label with a BOM: the mark stays in the text (or is garbled) and the first rule is lost -
                            # nothing to import; the BOM is for sheets without a label
                            continue
                        ecases.append(('encU', ov, thttp, tex, http, ex))
    fcases = []
    for n in (1, 2, 3):
        for combo in itertools.product([('all', True), ('all', False), ('print', True), ('print', False), ('tv, screen', True)], repeat=n):
            fcases.append(('flat', combo))
    return cases, ecases, fcases, {'load': n_load, 'enc': len(ecases), 'flat': len(fcases)}


def run(tier, seed):
    t0 = time.time()
    build = lib.build_and_audit(PROP)
    findings = lib.Findings(PROP)
    broken = []
    lcases, ecases, fcases, dist = gen_cases(tier, seed)
    ucases = url_cases(tier, seed)
    res = corr.run('c20o', lcases + fcases, lambda c: 'numval -', lambda c: '~', oracle, chunk=150)
    resE = corr.run('c20e', ecases, lambda c: {'enc': enc_line, 'enc2': enc2_line, 'encU': encU_line}[c[0]](c),
                    lambda c: {'enc': enc_py, 'enc2': enc2_py, 'encU': encU_py}[c[0]](c), oracle, chunk=40)
    resU = corr.run('c20u', ucases, url_line, url_py, oracle, chunk=400)
    rcases = [c for c in ucases if '//' not in c[1] and '//' not in c[2]]
    resR = corr.run('c20r', rcases, rfc_line, rfc_py, None, chunk=400)
    ocases = [('out', k) for k in BEHAVIOURS]
    resO = corr.run('c20f', ocases, out_line, out_py, None, chunk=20, procs=1)
    # resolveImports: random import trees against the model `Model/Resolve.lean` (harness/props/c20r.py)
    from . import c20r
    c20r._cp()
    vcases = c20r.gen_cases(tier)
    if tier == 'quick':
        vcases = vcases[::3]
    if seed:
        vcases = [(k, i + 1000003 * seed) if k != 'fix' else (k, i) for (k, i) in vcases]
    resV = corr.run('c20res', vcases, c20r.line_of, c20r.py_of, c20r.oracle, chunk=120)
    if resV['n_mismatch']:
        c, line, e, g = resV['mismatches'][0]
        broken.append('correspondence op `resolve` diverges on %d import trees; first %r: line=%s impl=%s model=%s' % (
            resV['n_mismatch'], c, line[:200], e[:200], g[:200]))
    for case, why in resV['oracle_fail'][:6]:
        findings.add('resolve', repr(case), why)
    for why in c20r.awkward_href_probe(seed)[:4]:
        findings.add('resolve', why[:60], why)
    asked = c20r.default_fetcher_probe()
    if asked:
        findings.add('resolve-fetcher', 'top \'@import "sub/a.css"; x{left:0}\', sub/a.css \'@import "n.css"; a{top:0}\', sub/n.css not loadable',
                     'resolveImports asked the default fetcher for %r' % asked)
    cyc = out_cyclic()
    cyc_model = lib.run_driver(['fetchout %s cyclic' % MODEL_FIXED])[0]
    n_mis = resE['n_mismatch'] + resU['n_mismatch'] + resO['n_mismatch'] + resR['n_mismatch'] + resV['n_mismatch'] + (1 if cyc != cyc_model else 0)
    for name, r in (('encsel', resE), ('urlpath', resU), ('fetchout', resO), ('rfcpath', resR)):
        if r['n_mismatch']:
            c, line, e, g = r['mismatches'][0]
            broken.append('correspondence op `%s` diverges on %d inputs; first %r: impl=%s model=%s' % (
                name, r['n_mismatch'], c[1:], e, g))
    if cyc != cyc_model:
        broken.append('correspondence op `fetchout cyclic`: impl=%s model=%s' % (cyc, cyc_model))
        if cyc == 'escaped':
            findings.add('load', 'a.css imports b.css imports a.css', 'a circular @import makes parseString raise RecursionError')
    for r in (res, resE, resU):
        for case, why in r['oracle_fail'][:8]:
            findings.add(case[0], repr(case[1:]), why)
    # how much of the loading code do the inputs execute (a measurement, not a verdict)
    coverage_lines = lib.modelled_code_coverage([('css_parser.util', '_readUrl'), ('css_parser.util', 'urljoin'),
                                                 ('css_parser.css.cssimportrule', 'CSSImportRule._setHref'), ('css_parser', 'resolveImports')],
                                                [lambda c=c: oracle(c) for c in (lcases[::max(1, len(lcases) // 300)] + ecases[::max(1, len(ecases) // 200)])] +
                                                [lambda c=c: url_py(c) for c in ucases[::max(1, len(ucases) // 300)]] +
                                                [lambda c=c: c20r.py_of(c) for c in vcases[::max(1, len(vcases) // 150)]], limit=1200)
    coverage = {
        'modelled_code_line_coverage': coverage_lines,
        'evaluations': res['n'] + resE['n'] + resU['n'] + resO['n'] + resV['n'] + 1,
        'distinct_nontrivial': len(set(lcases)) + len(ecases) + len(set(ucases)) + len(fcases) + len(set(vcases)),
        'rule': 'load: sheets with 1-3 imports over 6 href forms (relative, dot segments, absolute path, absolute URL) x '
                'every one of 10 fetcher behaviours alone, every pair, sampled triples, and nested imports (4 nested href '
                'forms x 10 behaviours) under both loading behaviours; checked: parse completes, every @import kept with its '
                'href, hrefFound, failed => empty sheet, loaded => content and href of the imported sheet (nested: resolved '
                'against the imported sheet), the fetcher is called with exactly the resolved URLs, cssText readable; '
                'enc: the full table override(3) x HTTP(4) x BOM/@charset/none(3) x parent @charset(4), and for a sheet imported by an '
                'imported sheet override(2) x HTTP1(3) x content1(2) x parent(2) x HTTP2(3) x content2(3); url: 7 bases x 21 '
                'references + random segment lists against the model and against RFC 3986; flat: resolveImports over all '
                'sequences of <= 3 imports from {all,print,list} x {loaded, not}; a two-sheet import cycle; resolve: random import trees '
                '(nesting <= 3, width 0-3; loaded / None / raising fetcher; media all / restricted / odd; sheets with @charset, @namespace, '
                'namespaced selectors, @media, @page, @font-face, comments, unknown rules), a mutated stream, 19 fixed sheets and a '
                'second run on the flat result, flattened rule sequence compared with the model and with the theorem statements',
        'traces_validated_against_impl': resE['n'] + resU['n'] + resO['n'] + resR['n'] + resV['n'] + 1,
        'exhaustive': True,
        'distribution': dist,
        'samples': [repr(lcases[i]) for i in (3, len(lcases) // 2, len(lcases) - 1)],
        'correspondence_mismatches': n_mis,
        'oracle_failures': res['n_oracle_fail'] + resE['n_oracle_fail'] + resU['n_oracle_fail'],
    }
    assumptions = ['encodings are abstracted to identifiers in the model; the codec itself is C14',
                   'URL parsing (scheme, authority, query) is urllib\'s; the model covers the path algorithm of util.urljoin']
    return lib.finish(PROP, tier, seed, t0, build, findings, coverage, assumptions, broken)
