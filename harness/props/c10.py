"""C10 — equivalent spellings (case, escapes, quoting) give the same model.

Proof: lean/CssVerif/Props/C10.lean (every spelling of a name — letter case, hex escapes with any number of
leading zeros / digit case / terminator, literal escapes — reads as the name; quote kind).
Tie: `decode` (model: unicodesub then normalize) against the real `Tokenizer.unicodesub` + `helper.normalize`,
and against the value of the IDENT / ATKEYWORD / FUNCTION / DIMENSION token the real tokenizer produces, on
random spellings (valid ones by construction and arbitrary escape soup); `norm` against `helper.normalize`.
Search: sheets from the grammar G x random respellings of every eligible token, compared through the model
extractor; single declarations and selectors as well (smaller, so rarer positions are hit more often).
"""
import random
import re
import sys
import time

from .. import corr, lib, pipeline as P, sheetgen as G

PROP = 'C10'


# ------------------------------------------------------------------ correspondence: decode / norm

def spell_name(rnd, name):
    """a valid spelling by construction (the side conditions of `Respell.ok`)"""
    out = []
    for i, ch in enumerate(name):
        nxt = name[i + 1] if i + 1 < len(name) else ''
        r = rnd.random()
        if r < 0.35 or not (ch.isalnum() or ch in '-_'):
            out.append(ch)
        elif r < 0.5 and ch.isalpha():
            out.append(ch.upper())
        elif r < 0.85:
            c = ch.upper() if (ch.isalpha() and rnd.random() < 0.3) else ch
            h = '%x' % ord(c)
            if rnd.random() < 0.4:
                h = h.upper()
            h = '0' * rnd.randint(0, 6 - len(h)) + h
            if (len(h) == 6 or (nxt and nxt not in '0123456789abcdefABCDEF \t\n\r\f')) and rnd.random() < 0.5:
                # (six digits, or a next character that is neither a hex digit nor CSS white space, end the escape)
                term = ''
            else:
                term = rnd.choice([' ', '\t', '\n', '\f', '\r'])
            out.append('\\' + h + term)
        elif ch.lower() not in '0123456789abcdef':
            out.append('\\' + (ch.upper() if rnd.random() < 0.3 else ch))
        else:
            out.append(ch)
    return ''.join(out)


NAMES = ['media', 'import', 'color', 'font-family', 'important', 'url', 'nth-child', 'px', 'deg', 'not', 'first-line', 'x-fn',
         'calc', 'rgb', 'abcdef', 'page', 'a0-_z', 'em', 'bad', 'decade', 'f00d', 'namespace', 'charset',
         # name characters that are white space for Python's \\s / str.strip but not for CSS
         'a\xa0b', 'x\u3000y', 'q\u2028z', 'na\x85me', 'e\u2003m', 'b\xa0', 'c\u1680d']


def dec_cases(tier, seed):
    rnd = random.Random(seed * 7 + 10)
    n = 1500 if tier == 'quick' else 40000
    cases = []
    for _ in range(n):
        name = rnd.choice(NAMES) if rnd.random() < 0.7 else ''.join(
            rnd.choice('abcdefghijklmnopqrstuvwxyz0123456789-_') for _ in range(rnd.randint(1, 8)))
        cases.append(('valid', name, spell_name(rnd, name)))
    alpha = list('\\\\\\\\aAfFgGzZ019 \t\n\r\f-_(@:') + ['\\0', '\\00', '\\41', '\\061 ', '\\110000', '\\d800', 'é', '\\\n', '\x0b', '\x1c', '\xa0', '\u3000']
    from css_parser.tokenize2 import Tokenizer
    for _ in range(n):
        t = ''.join(rnd.choice(alpha) for _ in range(rnd.randint(1, 12)))
        # (the model lower-cases ASCII letters; str.lower on other letters is outside it)
        if all(ord(ch) < 128 or ch.lower() == ch for ch in Tokenizer.unicodesub(_repl, t)):
            cases.append(('soup', None, t))
    return cases


def _repl(m):
    # (only a filter for the generated texts: it must not fail whatever the pattern under test matches)
    num = int(re.match('[0-9a-fA-F]{1,6}', m.group(0)[1:]).group(0), 16)
    return chr(num) if num <= sys.maxunicode else m.group(0)


def dec_py(c):
    """through the running tokenizer (its own escape callback, not the copy above): the text is put inside a comment, a
    token kind that goes through the escape reader and may hold any character"""
    from css_parser.tokenize2 import Tokenizer
    from css_parser.helper import normalize
    toks = list(Tokenizer().tokenize('/*' + c[2] + '*/'))
    assert len(toks) == 1 and toks[0][0] == 'COMMENT', toks
    return lib.enc(normalize(toks[0][1][2:-2]))


def dec_oracle(c, e):
    """valid spellings: the model value is the name; and the real tokenizer's token carries it"""
    kind, name, written = c
    if kind != 'valid':
        return ''
    if lib.dec(e) != name:
        return 'spelling %r of %r is read as %r' % (written, name, lib.dec(e))
    from css_parser.tokenize2 import Tokenizer
    from css_parser.helper import normalize
    if name[0].isdigit() or name[:2] in ('--',) or (name[0] == '-' and (len(name) == 1 or name[1].isdigit() or name[1] == '-')):
        return ''       # not an identifier when written plainly either
    for pre, post, typ in (('', '', 'IDENT'), ('@', '', None), ('', '(', 'FUNCTION'), ('12', '', 'DIMENSION'), ('#', '', 'HASH')):
        toks = list(Tokenizer().tokenize(pre + written + post))
        if pre == '12' and name[0] in 'e' and len(name) > 1 and (name[1].isdigit() or name[1] == '-'):
            continue
        if len(toks) != 1:
            # a terminator at the very end of the text may be left as white space after the token
            if len(toks) == 2 and toks[1][0] == 'S' and post == '':
                pass
            else:
                return '%r is tokenized as %r' % (pre + written + post, [t[:2] for t in toks])
        t = toks[0]
        if typ and t[0] != typ:
            return '%r is a %s token' % (pre + written + post, t[0])
        val = normalize(Tokenizer.unicodesub(_repl, t[1]))
        if val != pre + name + post:
            return 'token of %r has the value %r' % (pre + written + post, t[1])
    return ''


def norm_py(c):
    from css_parser.helper import normalize
    return lib.enc(normalize(c[2]))


# ------------------------------------------------------------------ search on the implementation

def sheet_case(seed):
    rnd = random.Random(seed)
    k = seed % 3
    if k == 0:
        ast = G.gen_sheet(rnd)
        canon = G.render_sheet(ast, G.Layout(None), G.Plain())
        t = G.render_sheet(ast, G.Layout(rnd if rnd.random() < 0.3 else None), G.Respell(rnd))
        m0, m = P.model_of(canon), P.model_of(t)
    elif k == 1:
        d = G.gen_decls(rnd, 1, 2)
        canon = 'a{' + G.render_decls(d, G.Layout(None), G.Plain()) + '}'
        t = 'a{' + G.render_decls(d, G.Layout(None), G.Respell(rnd)) + '}'
        m0, m = P.model_of(canon), P.model_of(t)
    else:
        sel = [G.gen_selector(rnd) for _ in range(rnd.randint(1, 2))]
        rule = G.strip_ns(('style', sel, [('top', [G.Comp('NUMBER', '0')], False)]))
        canon = G.render_rule(rule, G.Layout(None), G.Plain())
        t = G.render_rule(rule, G.Layout(None), G.Respell(rnd))
        m0, m = P.model_of(canon), P.model_of(t)
    d = P.diff(m, m0)
    if d:
        return 'respelling %r of %r changes the model: %s' % (t[:300], canon[:300], P.show(d, 160))
    return ''


def oracle(seed, _e=None):
    try:
        return sheet_case(seed)
    except Exception:
        import traceback
        return 'harness raised: ' + traceback.format_exc()[-400:]


def run(tier, seed):
    t0 = time.time()
    build = lib.build_and_audit(PROP)
    findings = lib.Findings(PROP)
    broken = []
    dc = dec_cases(tier, seed)
    resD = corr.run('c10d', dc, lambda c: 'decode ' + lib.enc(c[2]), dec_py, dec_oracle, chunk=1000)
    resN = corr.run('c10n', dc, lambda c: 'norm ' + lib.enc(c[2]), norm_py, None, chunk=1000)
    for name, r in (('decode', resD), ('norm', resN)):
        if r['n_mismatch']:
            c, line, e, g = r['mismatches'][0]
            broken.append('correspondence op `%s` diverges on %d inputs; first %r: impl=%s model=%s' % (
                name, r['n_mismatch'], c[2], lib.dec(e) if not e.startswith('PY') else e, lib.dec(g)))
    for case, why in resD['oracle_fail'][:5]:
        findings.add('spelling', repr(case[2]), why)
    n = 600 if tier == 'quick' else 40000
    seeds = [seed * 100003 + i for i in range(n)]
    res = corr.run('c10', seeds, lambda c: 'numval -', lambda c: '~', oracle, chunk=100)
    for case, why in res['oracle_fail'][:8]:
        findings.add('respell', str(case), why)
    P.probe_pinned(findings, ('respell',))
    coverage = {
        'evaluations': res['n'] + resD['n'] + resN['n'],
        'distinct_nontrivial': len(set(c[2] for c in dc)) + res['n'],
        'rule': 'sheets from the grammar G (all rule kinds, nested @media, margin boxes, level-3 selectors with namespaces, '
                'values of every component kind) with every eligible token respelled at random: letter case of at-keywords, '
                'property names, units, function names (incl. calc, rgb/hsl, url), pseudo names and !important; hex escapes '
                'with 0-4 leading zeros, either digit case and every terminator; literal escapes; quote kind; bare vs quoted '
                'URLs; one third whole sheets, one third single declarations, one third single selectors; compared through '
                'the model extractor.  Correspondence: valid spellings by construction of 23 fixed and random names and '
                'arbitrary escape soup, model `decode` / `norm` against Tokenizer.unicodesub + helper.normalize, and the '
                'real tokenizer on the spelling as IDENT, at-keyword, FUNCTION, DIMENSION unit and HASH',
        'traces_validated_against_impl': resD['n'] + resN['n'],
        'exhaustive': False,
        'distribution': {'spellings': len(dc), 'sheets/decls/selectors': res['n']},
        'samples': [repr(dc[i][2]) for i in (1, len(dc) // 4, len(dc) - 1)],
        'correspondence_mismatches': resD['n_mismatch'] + resN['n_mismatch'],
        'oracle_failures': res['n_oracle_fail'] + resD['n_oracle_fail'],
    }
    assumptions = ['letter case of identifiers in values, of element / class / id names and of hash colours is significant and '
                   'is not changed by the respelling (the property lists the case-insensitive positions)',
                   'names in the theorem are ASCII; str.lower on other letters is Python\'s']
    return lib.finish(PROP, tier, seed, t0, build, findings, coverage, assumptions, broken)
