"""C12 — getUrls/replaceUrls see every URL exactly once; URLs survive output.

Proof: lean/CssVerif/Props/C12.lean (the traversal yields import hrefs, then the url() values of every
declaration block in document order, at any nesting; replace-then-get = map; quoting and un-quoting of a URL
are inverse for every string without backslash and newline).  Tie: `urlrt` (helper.uri → tokenizer →
urivalue against the model pipeline) and `urltrav` (abstract rule trees against getUrls on real sheets built
from them).  Search: sheets with URLs planted at every URL-bearing position x replacement strings over a
wide character set.
"""
import random
import time

from .. import corr, lib

lib.use_repo()
PROP = 'C12'


def _cp():
    import css_parser
    import logging
    css_parser.log.setLevel(logging.FATAL)
    css_parser.log.raiseExceptions = False
    return css_parser


# ------------------------------------------------------------------ sheets with planted URLs (abstract trees)

# tree: list of nodes; node = ('import', url) | ('style', [urls]) | ('fontface', [urls]) | ('page', [urls], [[urls] per margin])
#       | ('media', [nodes]) | ('unknown',) | ('comment',)

def gen_tree(rnd, depth=0, counter=None):
    counter = counter if counter is not None else [0]

    def url():
        counter[0] += 1
        return 'u%d.png' % counter[0]

    def urls():
        return [url() for _ in range(rnd.choice([0, 1, 1, 2, 3]))]
    nodes = []
    if depth == 0:
        for _ in range(rnd.randint(0, 2)):
            nodes.append(('import', url()))
    for _ in range(rnd.randint(1, 4)):
        k = rnd.choice(['style', 'style', 'fontface', 'page', 'media', 'unknown', 'comment'] if depth < 3 else ['style', 'page'])
        if k == 'style':
            nodes.append(('style', urls()))
        elif k == 'fontface':
            if depth == 0:
                nodes.append(('fontface', urls()))
        elif k == 'page':
            nodes.append(('page', urls(), [urls() for _ in range(rnd.randint(0, 2))]))
        elif k == 'media':
            nodes.append(('media', gen_tree(rnd, depth + 1, counter)))
        else:
            nodes.append((k,))
    return nodes


PROPS = ['background', 'list-style-image', 'cursor', 'content', 'border-image', 'src']
MARGINS = ['@top-left', '@bottom-center', '@right-middle']


def decls(rnd, urls, q):
    out = []
    i = 0
    while i < len(urls):
        n = rnd.randint(1, 2)
        vals = []
        for u in urls[i:i + n]:
            vals.append(q(u))
        i += n
        out.append('%s: %s%s' % (rnd.choice(PROPS), rnd.choice([', ', ' ']).join(vals), rnd.choice(['', ' no-repeat', ' !important'])))
    out.insert(rnd.randint(0, len(out)), 'color: red')
    return '; '.join(out)


def render(rnd, nodes):
    def q(u):
        return rnd.choice(['url(%s)', 'url("%s")', "url('%s')", 'url( %s )', 'URL(%s)'][:4]) % u
    out = []
    for n in nodes:
        k = n[0]
        if k == 'import':
            out.append(rnd.choice(['@import "%s";', '@import url(%s);', "@import url('%s') print;"]) % n[1])
        elif k == 'style':
            out.append('a%d { %s }' % (len(out), decls(rnd, n[1], q)))
        elif k == 'fontface':
            out.append('@font-face { font-family: f; %s }' % decls(rnd, n[1], q))
        elif k == 'page':
            inner = decls(rnd, n[1], q)
            for i, m in enumerate(n[2]):
                inner += '; %s { %s }' % (MARGINS[i], decls(rnd, m, q))
            out.append('@page { %s }' % inner)
        elif k == 'media':
            out.append('@media print { %s }' % render(rnd, n[1]))
        elif k == 'unknown':
            out.append('@foo url(not-a-value.png);')
        else:
            out.append('/* url(in-comment.png) */')
    return ' '.join(out)


def expected(nodes):
    imports = [n[1] for n in nodes if n[0] == 'import']

    def rec(ns):
        out = []
        for n in ns:
            if n[0] in ('style', 'fontface'):
                out += n[1]
            elif n[0] == 'page':
                out += n[1]
                for m in n[2]:
                    out += m
            elif n[0] == 'media':
                out += rec(n[1])
        return out
    return imports + rec(nodes)


def enc_tree(nodes):
    """line protocol: i=import s<k>=style/fontface with k urls p<k>:<k1>:<k2>=page m(...)=media x=other"""
    out = []
    for n in nodes:
        k = n[0]
        if k == 'import':
            out.append('i')
        elif k in ('style', 'fontface'):
            out.append('s%d' % len(n[1]))
        elif k == 'page':
            out.append('p%d' % len(n[1]) + ''.join(':%d' % len(m) for m in n[2]))
        elif k == 'media':
            out.append('m(' + enc_tree(n[1]) + ')')
        else:
            out.append('x')
    return ','.join(out) or '-'


ALPHABET = list(' "\'(),;:#?&=%~!*@[]{}<>|^`$+-_./') + list('abzAZ09') + ['\t', '\x01', '\x1f', '\x7f', '\xa0', 'é', 'ü', '中', ' ',
                                                                      '\U0001F600', '\x0b']


def rnd_url(rnd):
    return ''.join(rnd.choice(ALPHABET) for _ in range(rnd.randint(1, 8)))     # (an empty href is no @import)


def traverse_case(case):
    cp = _cp()
    _, seed = case
    rnd = random.Random(seed)
    nodes = gen_tree(rnd)
    if seed % 3 == 0:
        # the same URL at several positions (a sprite, a font file): every OCCURRENCE is a URL of the sheet
        same = {}

        def ren(u):
            if u not in same:
                same[u] = rnd.choice(['sprite.png', 'f.woff', u, u])
            return same[u]

        def rec(ns):
            out = []
            for n in ns:
                if n[0] == 'import':
                    out.append(('import', ren(n[1])))
                elif n[0] in ('style', 'fontface'):
                    out.append((n[0], [ren(u) for u in n[1]]))
                elif n[0] == 'page':
                    out.append(('page', [ren(u) for u in n[1]], [[ren(u) for u in m] for m in n[2]]))
                elif n[0] == 'media':
                    out.append(('media', rec(n[1])))
                else:
                    out.append(n)
            return out
        nodes = rec(nodes)
    text = render(rnd, nodes)
    sheet = cp.CSSParser(fetcher=lambda u: (None, '')).parseString(text, href='http://h/s.css')
    exp = expected(nodes)
    got = list(cp.getUrls(sheet))
    if got != exp:
        return 'getUrls of %r yields %r, the sheet holds %r' % (text, got, exp)
    # replace: every URL exactly once, in order
    seen = []
    repl = {}

    returned = []

    def replacer(u):
        seen.append(u)
        returned.append(rnd_url(rnd) + str(len(seen)))        # (a new value for every occurrence)
        return returned[-1]
    cp.replaceUrls(sheet, replacer)
    if seen != exp:
        return 'replaceUrls of %r called the replacer with %r, the sheet holds %r' % (text, seen, exp)
    after = list(cp.getUrls(sheet))
    if after != returned:
        return 'after replaceUrls getUrls yields %r, the replacer returned %r' % (after, returned)
    # imports optional
    sheet2 = cp.CSSParser(fetcher=lambda u: (None, '')).parseString(text, href='http://h/s.css')
    seen2 = []
    cp.replaceUrls(sheet2, lambda u: seen2.append(u) or u, ignoreImportRules=True)
    n_imp = len([n for n in nodes if n[0] == 'import'])
    if seen2 != exp[n_imp:]:
        return 'replaceUrls(ignoreImportRules=True) called the replacer with %r, expected %r' % (seen2, exp[n_imp:])
    # survive output
    out = sheet.cssText
    back = list(cp.getUrls(cp.CSSParser(fetcher=lambda u: (None, '')).parseString(out, href='http://h/s.css')))
    if back != after:
        return 'serialised sheet %r re-parses to URLs %r, the sheet holds %r' % (out[:200], back, after)
    return ''


def url_case(case):
    """a single URL string through value.uri, @import href, serialisation and re-parse"""
    cp = _cp()
    _, u = case
    sheet = cp.CSSParser(fetcher=lambda x: (None, '')).parseString('@import "i.css"; a { background: url(x.png) }')
    cp.replaceUrls(sheet, lambda _: u)
    if list(cp.getUrls(sheet)) != [u, u]:
        return 'after replaceUrls with %r getUrls yields %r' % (u, list(cp.getUrls(sheet)))
    out = sheet.cssText
    back = list(cp.getUrls(cp.CSSParser(fetcher=lambda x: (None, '')).parseString(out)))
    if back != [u, u]:
        return 'URL %r is written %r which re-parses to %r' % (u, out, back)
    return ''


# ------------------------------------------------------------------ correspondence with the model

def urlrt_py(case):
    cp = _cp()
    _, u = case
    text = cp.helper.uri(u)
    toks = [t for t in cp.tokenize2.Tokenizer().tokenize(text)]
    if len(toks) != 1 or toks[0][0] != 'URI':
        return 'nottoken'
    return lib.enc(cp.helper.urivalue(toks[0][1]))


def urlrt_line(case):
    return 'urlrt %s' % lib.enc(case[1])


def urltrav_py(case):
    cp = _cp()
    _, seed = case
    rnd = random.Random(seed)
    nodes = gen_tree(rnd)
    text = render(rnd, nodes)
    sheet = cp.CSSParser(fetcher=lambda u: (None, '')).parseString(text, href='http://h/s.css')
    return ','.join(u[1:-4] for u in cp.getUrls(sheet))


def urltrav_line(case):
    _, seed = case
    rnd = random.Random(seed)
    nodes = gen_tree(rnd)
    return 'urltrav %s' % enc_tree(nodes)


def oracle(case, _e=None):
    if case[0] == 'trav':
        return traverse_case(case)
    return url_case(case)


def gen_cases(tier, seed):
    rnd = random.Random(seed)
    trav = [('trav', seed * 100000 + i) for i in range(250 if tier == 'quick' else 5000)]
    urls = [('url', c) for c in ALPHABET] + [('url', 'a' + c + 'b') for c in ALPHABET] + \
        [('url', c + c) for c in ALPHABET]
    for _ in range(600 if tier == 'quick' else 12000):
        urls.append(('url', rnd_url(rnd)))
    return trav, urls


def run(tier, seed):
    t0 = time.time()
    build = lib.build_and_audit(PROP)
    findings = lib.Findings(PROP)
    broken = []
    trav, urls = gen_cases(tier, seed)
    resT = corr.run('c12t', trav, urltrav_line, urltrav_py, oracle, chunk=100)
    resU = corr.run('c12u', urls, urlrt_line, urlrt_py, oracle, chunk=300)
    for name, r in (('urltrav', resT), ('urlrt', resU)):
        if r['n_mismatch']:
            c, line, e, g = r['mismatches'][0]
            broken.append('correspondence op `%s` diverges on %d inputs; first %r: impl=%s model=%s' % (
                name, r['n_mismatch'], c[1], e[:120], g[:120]))
        for case, why in r['oracle_fail'][:6]:
            findings.add(case[0], repr(case[1]), why)
    # how much of the traversal and quoting code do the inputs execute (a measurement, not a verdict)
    coverage_lines = lib.modelled_code_coverage([('css_parser', 'getUrls'), ('css_parser', 'replaceUrls'), ('css_parser.helper', 'uri'),
                                                 ('css_parser.helper', 'string'), ('css_parser.helper', 'urivalue'), ('css_parser.helper', 'stringvalue')],
                                                [lambda c=c: oracle(c) for c in trav[::max(1, len(trav) // 300)]] +
                                                [lambda c=c: oracle(c) for c in urls[::max(1, len(urls) // 500)]], limit=900)
    coverage = {
        'modelled_code_line_coverage': coverage_lines,
        'evaluations': resT['n'] + resU['n'],
        'distinct_nontrivial': len(set(trav)) + len(set(urls)),
        'rule': 'traversal: generated rule trees (imports, style rules, @font-face, @page with 0-2 margin rules, @media nested '
                'up to 3 deep, unknown rules and comments that mention url()) with 0-3 URLs per declaration block in four '
                'spellings; expected list by construction; checked: getUrls, replaceUrls (each URL once, in order, imports '
                'optional), getUrls afterwards, serialise + re-parse; URL strings: every character of a 60-character '
                'alphabet (quotes, brackets, separators, controls, DEL, non-ASCII spaces, astral) alone, doubled and between '
                'letters, plus random strings, through value.uri and @import href',
        'traces_validated_against_impl': resT['n'] + resU['n'],
        'exhaustive': False,
        'distribution': {'trees': len(trav), 'urls': len(urls)},
        'samples': [repr(urls[i]) for i in (5, len(urls) // 2, len(urls) - 1)],
        'correspondence_mismatches': resT['n_mismatch'] + resU['n_mismatch'],
        'oracle_failures': resT['n_oracle_fail'] + resU['n_oracle_fail'],
    }
    assumptions = ['URLs contain no backslash and no newline / form feed / carriage return (as the property says)']
    return lib.finish(PROP, tier, seed, t0, build, findings, coverage, assumptions, broken)
