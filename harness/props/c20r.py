"""C20 (resolveImports): the real `css_parser.resolveImports` against the Lean model `Model/Resolve.lean`
(driver op `resolve`) on random import trees, plus an oracle that evaluates the statements of the
theorems of `Proofs/Resolve.lean` directly on the real result.

case = ('tree' | 'mut' | 'fix', k): the whole scenario (sheet texts, fetcher table) is rebuilt from the
case's own PRNG.  The model's input is read off the PARSED sheet objects (rule types, hrefFound, the
imported sheets, media texts, namespace prefixes / URIs, the URIs the selectors use); texts are mapped
to small identifiers by a table that is also used to render the result of the real call.
"""
import functools
import logging
import random
import re
import time
import xml.dom

from .. import lib, corr

lib.use_repo()

TOP = 'http://h/top.css'
_START = re.compile(r'^/\* START @import "(.*)" \*/$')
_state = {'patched': False, 'default_calls': []}


def _cp():
    import css_parser as cp
    import css_parser.util as util
    if not _state['patched']:
        cp.log.setLevel(logging.CRITICAL)

        def no_network(url):
            # the target sheet of resolveImports has no fetcher: insertRule() re-loads a kept, not loaded
            # @import through util._defaultFetcher (urllib).  Recorded, and nothing is loaded.
            _state['default_calls'].append(url)
            return None
        util._defaultFetcher = no_network
        _state['patched'] = True
    # the model transcribes the behaviour under the default, raising log (whatever ran before in this process)
    cp.log.raiseExceptions = True
    return cp


# ------------------------------------------------------------------ scenario generator

MEDIA_ALL = ['', '', '', ' all']
MEDIA_RESTR = [' print', ' screen', ' tv, screen', ' screen and (min-width: 100px)']
MEDIA_ODD = [' ALL', ' all, print', ' not all', ' PRINT']
PREFIXES = ['', 'a', 'b']
URIS = ['u1', 'u2', 'u3']


class Gen:
    def __init__(self, rnd, mutate):
        self.rnd = rnd
        self.mutate = mutate
        self.n = 0
        self.maxdepth = rnd.choice([1, 1, 2, 2, 2, 3, 3])
        self.width = rnd.choice([[0, 1, 1, 2], [0, 1, 1, 2, 2, 3], [1, 2, 3, 3]])
        self.texts = {}      # absolute url -> text | None | Exception instance
        self.stats = {'sheets': 0, 'imports': 0, 'loaded': 0, 'unloaded_none': 0, 'unloaded_raise': 0, 'restricted': 0,
                      'odd_media': 0, 'ns': 0, 'nsstyle': 0, 'mutations': 0}

    def fresh(self):
        self.n += 1
        return self.n

    def body_rule(self, bound, in_media=False):
        rnd = self.rnd
        k = rnd.choice(['style', 'style', 'style', 'comment', 'media', 'page', 'fontface', 'unknown'] if not in_media
                       else ['style', 'style', 'comment', 'unknown', 'page', 'media'])
        i = self.fresh()
        if k == 'style':
            named = [p for p in bound if p]
            if named and rnd.random() < 0.45:
                self.stats['nsstyle'] += 1
                return '%s|s%d { top: %dpx }' % (rnd.choice(named), i, i)
            if rnd.random() < 0.25:     # replaceUrls() rewrites these in imported sheets
                return 's%d { background: url(img/i%d.png) }' % (i, i)
            return 's%d { top: %dpx }' % (i, i)
        if k == 'comment':
            return '/*c%d*/' % i
        if k == 'media':
            kids = ' '.join(self.body_rule(bound, True) for _ in range(rnd.randint(0, 2))) if not in_media or rnd.random() < 0.3 \
                else 's%d { left: 0 }' % self.fresh()
            return '@media %s { %s }' % (rnd.choice(['print', 'screen', 'tv']), kids)
        if k == 'page':
            return '@page :first { margin: %dpx }' % i
        if k == 'fontface':
            return '@font-face { font-family: F%d%s }' % (i, rnd.choice(['', '; src: url(f%d.woff)' % i]))
        return '@x%d y;' % i

    def sheet(self, url, depth, plain=False):
        """text of one sheet; registers the sheets it imports.  plain: only what @media can hold"""
        rnd = self.rnd
        self.stats['sheets'] += 1
        base = url[:url.rfind('/') + 1]
        parts = []
        if rnd.random() < 0.25:
            parts.append('@charset "utf-8";')
        if rnd.random() < 0.3:
            parts.append('/*c%d*/' % self.fresh())
        nimp = rnd.choice(self.width) if depth < self.maxdepth else 0
        if depth == 0 and nimp == 0:
            nimp = 1
        for _ in range(nimp):
            i = self.fresh()
            href = rnd.choice(['n%d.css', 'n%d.css', 'd%d/n%%d.css' % i, '../n%d.css' if depth else 'n%d.css']) % i
            r = rnd.random()
            if plain or r < 0.55:
                media = rnd.choice(MEDIA_ALL)
            elif r < 0.93:
                media = rnd.choice(MEDIA_RESTR)
                self.stats['restricted'] += 1
            else:
                media = rnd.choice(MEDIA_ODD)
                self.stats['odd_media'] += 1
            parts.append('@import "%s"%s;' % (href, media))
            self.stats['imports'] += 1
            from css_parser.util import urljoin
            full = urljoin(base, href)
            r = rnd.random()
            if r < 0.72:
                self.stats['loaded'] += 1
                # a restricted import more often gets a sheet that can be wrapped
                sub_plain = plain or (media.strip() not in ('', 'all') and rnd.random() < 0.6)
                self.texts[full] = None     # reserve (a cycle back to it is "not found")
                self.texts[full] = self.sheet(full, depth + 1, sub_plain)
            elif r < 0.86:
                self.stats['unloaded_none'] += 1
                self.texts[full] = None
            else:
                self.stats['unloaded_raise'] += 1
                self.texts[full] = rnd.choice([OSError('no'), ValueError('no'), IOError('no')])
            if rnd.random() < 0.2:
                parts.append('/*c%d*/' % self.fresh())
        bound = []
        if not plain:
            for _ in range(rnd.choice([0, 0, 1, 1, 2])):
                p, u = rnd.choice(PREFIXES), rnd.choice(URIS)
                parts.append('@namespace %s"%s";' % (p + ' ' if p else '', u))
                bound.append(p)
                self.stats['ns'] += 1
        for _ in range(rnd.randint(0, 4)):
            if plain:
                i = self.fresh()
                parts.append(rnd.choice(['s%d { top: 0 }' % i, 's%d { top: 0 }' % i, '/*c%d*/' % i]))
            else:
                parts.append(self.body_rule(bound))
        if self.mutate and rnd.random() < 0.5:
            self.stats['mutations'] += 1
            m = rnd.choice(['shuffle', 'late_import', 'late_import', 'dup', 'dup', 'late_ns', 'late_ns', 'self', 'self', 'junk', 'junk'])
            if m == 'shuffle':
                rnd.shuffle(parts)
            elif m == 'late_import':
                parts.append('@import "n%d.css";' % self.fresh())
            elif m == 'dup' and parts:
                parts.insert(rnd.randrange(len(parts) + 1), rnd.choice(parts))
            elif m == 'late_ns':
                parts.append('@namespace %s "%s";' % (rnd.choice(['a', 'b']), rnd.choice(URIS)))
            elif m == 'self':
                parts.insert(0, '@import "%s";' % url)
            else:
                parts.insert(rnd.randrange(len(parts) + 1), rnd.choice(['}', '@import;', '@namespace;', 'x { ', '@media {']))
        return ' '.join(parts)


FIXED = [
    # (top text, {relative url: text | None})
    ('/*c0*/ @import "a.css"; @import "u.css"; @import "b.css" print; x{left:0}',
     {'a.css': '@charset "utf-8"; @namespace p "u1"; a{top:0} @page {margin:0} @font-face{font-family:x}', 'b.css': '/*cb*/ b{top:0}'}),
    ('@import "b.css" print; x{left:0}', {'b.css': 'b{top:0} @page {margin:0}'}),
    ('@import "b.css" print; x{left:0}', {'b.css': '@import "n.css"; b{top:0}'}),
    ('@import "a.css"; x{left:0}', {'a.css': '@import "b.css" print; a{top:0}', 'b.css': '@import "n.css"; b{top:0}'}),
    ('@import "a.css" print; x{left:0}', {'a.css': '@import "b.css" screen; a{top:0}', 'b.css': 'b{top:0}'}),
    ('@import "a.css" print; x{left:0}', {'a.css': '@import "b.css"; a{top:0}', 'b.css': 'b{top:0}'}),
    ('@import "sub/a.css"; x{left:0}', {'sub/a.css': '@import "n.css"; a{top:0}', 'n.css': 'n{top:0}'}),
    ('@import "u.css"; /*c*/ @import "v.css"; @namespace q "u2"; x{left:0}', {}),
    ('@import "a.css"; @namespace p "u1"; p|x{left:0}', {'a.css': '@namespace p "u2"; p|y{top:0}'}),
    ('@import "a.css"; @namespace p "u1"; p|x{left:0}', {'a.css': '@namespace p "u2"; y{top:0}'}),
    ('@import "a.css"; @namespace p "u1"; p|x{left:0}', {'a.css': '@namespace q "u1"; q|y{top:0}'}),
    ('@import "a.css"; @import "b.css"; x{left:0}', {'a.css': '@namespace p "u1"; p|y{top:0}', 'b.css': '@namespace p "u2"; @media print {p|z{top:0}}'}),
    ('@import "a.css" print;', {'a.css': ''}),
    ('@import "a.css";', {'a.css': '@charset "utf-8";'}),
    ('@import "a.css" print; @import "a.css";', {'a.css': 'a{top:0}'}),
    ('@import "a.css" print;', {'a.css': '@namespace "u1"; a{top:0}'}),
    ('@import "a.css" print;', {'a.css': '@media screen {a{top:0}}'}),
    ('@import "a.css" print;', {'a.css': '@x y; a{top:0}'}),
    ('@import "a.css" print;', {'a.css': '@font-face {font-family: F} a{top:0}'}),
]


@functools.lru_cache(maxsize=4096)
def scenario(case):
    kind, k = case
    if kind == 'fix':
        top, rel = FIXED[k]
        texts = {'http://h/' + u: t for u, t in rel.items()}
        return top, texts, {}
    rnd = random.Random('c20r/%s/%d' % (kind, k))
    g = Gen(rnd, kind == 'mut')
    _cp()
    top = g.sheet(TOP, 0)
    return top, g.texts, g.stats


# ------------------------------------------------------------------ model extraction / rendering

class Ids:
    def __init__(self):
        self.t = {}

    def of(self, kind, text):
        key = (kind, text)
        if key not in self.t:
            self.t[key] = sum(1 for (k2, _) in self.t if k2 == kind) + 1
        return self.t[key]


def style_key(r):
    return tuple((tuple(sel.element) if isinstance(sel.element, tuple) else sel.element, sel.selectorText.split('|')[-1])
                 for sel in r.selectorList)


def tokens(rules, ids, flat=False, inside=False):
    """the rule list as the token list of the driver protocol"""
    out = []
    for r in rules:
        t = r.type
        if t == r.CHARSET_RULE:
            # (the @charset rule of an IMPORTED sheet is never part of the flat sheet, and a kept import whose href is
            # re-based is loaded again, with or without such a rule: it is left out of the comparison)
            if not inside:
                out.append('C%d' % ids.of('enc', r.encoding))
        elif t == r.NAMESPACE_RULE:
            out.append('N%d:%d' % (0 if not r.prefix else ids.of('pfx', r.prefix), ids.of('uri', r.namespaceURI)))
        elif t == r.IMPORT_RULE:
            mt = r.media.mediaText
            q = 0 if mt == 'all' else ids.of('media', mt)
            # (by file name: resolveImports re-bases the href of an @import it keeps, the names are unique)
            h = ids.of('href', r.href.rsplit('/', 1)[-1])
            if r.hrefFound:
                out.append('I%d:%d[' % (h, q))
                out.extend(tokens(r.styleSheet.cssRules, ids, flat, True))
                out.append(']')
            else:
                out.append('U%d:%d' % (h, q))
        elif t == r.MEDIA_RULE:
            mt = r.media.mediaText
            out.append('M%d[' % (0 if mt == 'all' else ids.of('media', mt)))
            out.extend(tokens(r.cssRules, ids, flat))
            out.append(']')
        elif t == r.COMMENT:
            m = _START.match(r.cssText)
            if m and flat:
                out.append('S%d' % ids.of('href', m.group(1).rsplit('/', 1)[-1]))
            else:
                out.append('c%d' % ids.of('comment', r.cssText))
        elif t == r.STYLE_RULE:
            used = sorted(ids.of('uri', u) for u in r.selectorList._getUsedUris() if u is not None)
            out.append('s%d%s' % (ids.of('style', style_key(r)), (':' + '+'.join(map(str, used))) if used else ''))
        elif t == r.PAGE_RULE:       # (not by cssText: replaceUrls rewrites url() values of imported rules)
            out.append('p%d' % ids.of('block', ('page', r.selectorText, r.style.getPropertyValue('margin'))))
        elif t == r.FONT_FACE_RULE:
            out.append('f%d' % ids.of('block', ('font', r.style.getPropertyValue('font-family'))))
        elif t == r.UNKNOWN_RULE:
            out.append('u%d' % ids.of('block', r.cssText))
        else:
            out.append('?%d' % t)
    return out


def join(toks):
    return ','.join(toks) if toks else '-'


@functools.lru_cache(maxsize=4096)
def evaluate(case):
    """(model input line, result of the real call, info) — computed once per case (the call mutates rules)"""
    cp = _cp()
    top, texts, stats = scenario(case)
    calls = []

    def fetcher(url):
        calls.append(url)
        v = texts.get(url)
        if isinstance(v, Exception):
            raise v
        if v is None:
            return None
        return (None, v)
    sheet = cp.CSSParser(fetcher=fetcher).parseString(top, href=TOP)
    ids = Ids()
    tin = tokens(sheet.cssRules, ids)
    del _state['default_calls'][:]
    ncalls = len(calls)
    tin2, got2 = '-', 'ok -'
    try:
        flat = cp.resolveImports(sheet)
        got = 'ok ' + join(tokens(flat.cssRules, ids, flat=True))
    except xml.dom.HierarchyRequestErr:
        got, flat = 'raised hierarchy', None
    except xml.dom.NoModificationAllowedErr:
        got, flat = 'raised nomod', None
    info = {'default_fetches': list(_state['default_calls']), 'fetcher_calls_during_resolve': calls[ncalls:]}
    if flat is not None:
        # second run, on the flat sheet (its kept loaded imports still carry their sheets)
        tin2 = join(tokens(flat.cssRules, ids, flat=True))
        try:
            got2 = 'ok ' + join(tokens(cp.resolveImports(flat).cssRules, ids, flat=True))
        except xml.dom.HierarchyRequestErr:
            got2 = 'raised hierarchy'
        except xml.dom.NoModificationAllowedErr:
            got2 = 'raised nomod'
    return join(tin), got, info, tin2, got2


def line_of(case):
    if case[0] == 'twice':
        return 'resolve ' + evaluate(('tree', case[1]))[3]
    return 'resolve ' + evaluate(case)[0]


def py_of(case):
    if case[0] == 'twice':
        return evaluate(('tree', case[1]))[4]
    return evaluate(case)[1]


# ------------------------------------------------------------------ the theorems' statements on the real result

def parse_tokens(s):
    """token line -> nested lists: ('C',e) ('N',p,u) ('U',id,q) ('I',id,q,[..]) ('M',q,[..]) ('c',i) ('S',i) ('s',i,used) ('p'|'f'|'u',i)"""
    if s == '-':
        return []
    stack = [[]]
    heads = []
    for tok in s.split(','):
        if tok == ']':
            kids = stack.pop()
            h = heads.pop()
            stack[-1].append(h + (kids,))
        elif tok.endswith('['):
            body = tok[1:-1]
            heads.append((tok[0],) + tuple(int(x) for x in body.split(':')))
            stack.append([])
        elif tok[0] == 's':
            b = tok[1:].split(':')
            stack[-1].append(('s', int(b[0]), tuple(int(x) for x in b[1].split('+')) if len(b) > 1 else ()))
        else:
            stack[-1].append((tok[0],) + tuple(int(x) for x in tok[1:].split(':')))
    assert len(stack) == 1
    return stack[0]


def is_import(r):
    return r[0] in 'UI'


def is_body(r):
    return r[0] in 'McSspfu'


def can_wrap(r):
    return r[0] in 'cSs'


def kept(r):
    """`kept q sub`: a media-restricted loaded import whose flat sheet holds anything but comments and style rules"""
    return r[2] != 0 and hard(r[3])


def hard(s):
    """`flatHard`: the flat sheet of s has an @namespace rule, an @import rule, or a body rule @media is not given"""
    for r in s:
        if r[0] in 'NMpfuU':
            return True
        if r[0] == 'I' and (r[2] != 0 or hard(r[3])):
            # kept: an @import rule; restricted and wrapped: an @media block; unrestricted: what its flat sheet holds
            return True
    return False


def imp_trav(s):
    out = []
    for r in s:
        if r[0] == 'U':
            out.append(r)
        elif r[0] == 'I':
            if kept(r):
                out.append(r)
            elif r[2] == 0:
                out.extend(imp_trav(r[3]))
    return out


def body_trav(s):
    out = []
    for r in s:
        if r[0] == 'I':
            out.append(('S', r[1]))
            if kept(r):
                pass
            elif r[2] == 0:
                out.extend(body_trav(r[3]))
            else:
                out.append(('M', r[2], body_trav(r[3])))
        elif is_body(r):
            out.append(r)
    return out


def oracle(case, _e=None):
    """resolve_never_hierarchy / resolve_order / resolve_imports / resolve_arrangement / resolve_idempotent
    evaluated on the real result"""
    if case[0] == 'twice':
        _, _, _, tin2, got2 = evaluate(('tree', case[1]))
        if 'I' not in tin2 and got2 != 'ok ' + tin2:
            return 'resolve_idempotent fails on the real code: resolveImports(%s) = %s' % (tin2, got2)
        return ''
    tin, got, info = evaluate(case)[:3]
    tree = parse_tokens(tin)
    if got == 'raised nomod':
        return ''
    if got == 'raised hierarchy':
        return 'resolve_never_hierarchy fails on the real code: resolveImports raised HierarchyRequestErr: %s' % tin
    if not got.startswith('ok '):
        return 'unexpected outcome %r for %s' % (got, tin)
    res = parse_tokens(got[3:])
    if [r for r in res if is_body(r)] != body_trav(tree):
        return 'resolve_order fails on the real result: %s -> %s' % (tin, got)
    if [r for r in res if is_import(r)] != imp_trav(tree):
        return 'resolve_imports fails on the real result: %s -> %s' % (tin, got)
    if any(r[0] == 'C' for r in res):
        return '@charset in the flat sheet: %s -> %s' % (tin, got)
    # arrangement: [one comment] imports, namespaces, the rest
    kinds = ''.join('i' if is_import(r) else 'n' if r[0] == 'N' else 'b' for r in res)
    if not re.match(r'^(b(?=i))?i*n*b*$', kinds):
        return 'arrangement of the flat sheet: %s' % got
    return ''


# ------------------------------------------------------------------ what the real function does beyond the property text

def observations():
    """concrete sheets + fetchers on the real code (no Lean involved)"""
    cp = _cp()
    import css_parser.util as util
    out = []

    def parse(top, texts, deny=()):
        return cp.CSSParser(fetcher=lambda u: (None, texts[u]) if u in texts and u not in deny else None).parseString(top, href=TOP)
    # 1. a media-restricted import of a sheet with an @import that stays is kept (it made resolveImports raise
    #    HierarchyRequestErr from CSSMediaRule.add before the repair cdf8fa7)
    sh = parse('@import "b.css" print; x{left:0}', {'http://h/b.css': '@import "n.css"; b{top:0}'})
    try:
        flat = cp.resolveImports(sh)
        out.append('1: resolveImports(\'@import "b.css" print; x{left:0}\') with b.css = \'@import "n.css"; b{top:0}\' and n.css not '
                   'loadable keeps the rule, as the docstring says: %s' % ' '.join(r.cssText.replace('\n', ' ') for r in flat.cssRules))
    except xml.dom.HierarchyRequestErr as e:
        out.append('1: HierarchyRequestErr leaves resolveImports again (changed): %s' % str(e)[:70])
    # 2. NoModificationAllowedErr leaves resolveImports
    sh = parse('@import "a.css"; @namespace p "u1"; p|x{left:0}', {'http://h/a.css': '@namespace p "u2"; p|y{top:0}'})
    try:
        cp.resolveImports(sh)
        out.append('2: no exception (changed)')
    except xml.dom.NoModificationAllowedErr as e:
        out.append('2: resolveImports(\'@import "a.css"; @namespace p "u1"; p|x{left:0}\') with a.css = \'@namespace p "u2"; '
                   'p|y{top:0}\' raises NoModificationAllowedErr')
    # 3. the flat sheet re-loads kept @imports through the DEFAULT fetcher and against the top sheet's URL
    texts = {'http://h/sub/a.css': '@import "n.css"; a{top:0}', 'http://h/n.css': 'other{top:0}'}
    asked = []
    saved = util._defaultFetcher

    def default(url):
        asked.append(url)
        return (None, texts[url]) if url in texts else None
    util._defaultFetcher = default
    try:
        sh = parse('@import "sub/a.css"; x{left:0}', texts, deny=('http://h/n.css',))
        inner = sh.cssRules[0].styleSheet.cssRules[0]
        before = (inner.hrefFound, inner.parentStyleSheet.href)
        flat = cp.resolveImports(sh)
        imp = [r for r in flat.cssRules if r.type == r.IMPORT_RULE][0]
        out.append('3: \'@import "sub/a.css"; x{left:0}\' with sub/a.css = \'@import "n.css"; a{top:0}\', sub/n.css not loadable: '
                   'before, the nested rule is hrefFound=%s against %s; resolveImports asks util._defaultFetcher (not the '
                   'sheet\'s fetcher) for %s and the kept rule \'%s\' of the flat sheet is hrefFound=%s with sheet %s' % (
                       before[0], before[1], asked, imp.cssText, imp.hrefFound, imp.styleSheet.href))
    finally:
        util._defaultFetcher = saved
    return out


def default_fetcher_probe():
    """the recorded finding C20-resolveImports-default-fetcher: URLs the DEFAULT fetcher is asked for by resolveImports"""
    cp = _cp()
    import css_parser.util as util
    texts = {'http://h/sub/a.css': '@import "n.css"; a{top:0}'}
    asked = []
    saved = util._defaultFetcher
    util._defaultFetcher = lambda url: asked.append(url)
    try:
        sh = cp.CSSParser(fetcher=lambda u: (None, texts[u]) if u in texts else None).parseString(
            '@import "sub/a.css"; x{left:0}', href=TOP)
        cp.resolveImports(sh)
    finally:
        util._defaultFetcher = saved
    return asked


def awkward_href_probe(seed=0):
    """hrefs whose characters matter inside the START comment resolveImports writes (`*/`, quotes, backslash-free
    punctuation, non-ASCII): flattening must not raise, must keep the imported rules, and the flat sheet must re-parse
    to itself.  Returns a list of failure descriptions."""
    import random
    cp = _cp()
    rnd = random.Random(seed)
    out = []
    hrefs = ['a*/b.css', '*/', 'a*/*/b.css', '**//x.css', "a'b.css", 'a b.css', 'a/*b.css', 'é*/.css', 'a)b(.css', 'a;b,c.css']
    for _ in range(40):
        hrefs.append(''.join(rnd.choice(['*', '/', '*/', '/*', 'a', '.', ' ', '-', "'", 'é', '(', ')']) for _ in range(rnd.randint(1, 8))) + 'x')
    for h in hrefs:
        for media in ('', ' print'):
            src = '@import url("%s")%s; x{left:0}' % (h, media)
            try:
                sh = cp.CSSParser(fetcher=lambda u: (None, 'a{top:0}')).parseString(src, href=TOP)
                if not sh.cssRules or sh.cssRules[0].type != 3 or sh.cssRules[0].href != h:
                    continue          # not an import with this href (e.g. it ends in a blank): nothing to flatten
                flat = cp.resolveImports(sh)
                text = flat.cssText
                styles = []
                for r in flat.cssRules:
                    styles += [r.selectorText] if r.type == 1 else [q.selectorText for q in r.cssRules if q.type == 1] if r.type == 4 else []
                if styles != ['a', 'x']:
                    out.append('resolveImports(%r): style rules %r, expected the imported a and then x' % (src, styles))
                elif cp.parseString(text).cssText != text:
                    out.append('resolveImports(%r): the flat sheet %r does not re-parse to itself' % (src, text))
            except Exception as e:
                out.append('resolveImports(%r) raised %s: %s' % (src, type(e).__name__, str(e)[:100]))
    return out


# ------------------------------------------------------------------ entry points

def gen_cases(tier):
    n = 1500 if tier == 'quick' else 20000
    cases = [('fix', i) for i in range(len(FIXED))]
    cases += [('tree', i) for i in range(n)]
    cases += [('mut', i) for i in range(n // 3)]
    cases += [('twice', i) for i in range(n // 2)]
    return cases


def depth(tree):
    return 1 + max([depth(r[3]) for r in tree if r[0] == 'I'] + [0])


def selftest(tier='quick', seed=0):
    """correspondence of the driver op `resolve` with the real resolveImports + the theorem oracle"""
    t0 = time.time()
    _cp()
    cases = gen_cases(tier)
    if seed:
        cases = [(k, i + 1000003 * seed) if k != 'fix' else (k, i) for (k, i) in cases]
    res = corr.run('c20res', cases, line_of, py_of, oracle, chunk=250)
    # distribution, recomputed in this process over a sample of every kind (the workers' caches are theirs)
    sample = [c for c in cases if c[0] != 'twice'][::max(1, len(cases) // 800)]
    dist = {}
    outcomes = {}
    depths = {}
    extra = {'kept_loaded_import_in_result': 0, 'default_fetcher_used': 0, 'media_blocks_made': 0,
             'second_run_equal': 0, 'second_run_differs': 0}
    for c in sample:
        for k, v in scenario(c)[2].items():
            dist[k] = dist.get(k, 0) + v
        tin, got, info, tin2, got2 = evaluate(c)
        key = got if got.startswith('raised') else 'ok'
        outcomes[key] = outcomes.get(key, 0) + 1
        d = depth(parse_tokens(tin))
        depths[d] = depths.get(d, 0) + 1
        if key == 'ok':
            extra['kept_loaded_import_in_result'] += 'I' in got
            extra['media_blocks_made'] += 'M' in got
            extra['second_run_equal' if got2 == 'ok ' + tin2 else 'second_run_differs'] += 1
        extra['default_fetcher_used'] += bool(info['default_fetches'])
    return {
        'cases': res['n'], 'mismatches': res['n_mismatch'], 'oracle_failures': res['n_oracle_fail'],
        'first_mismatches': [(c, l, e, g) for (c, l, e, g) in res['mismatches'][:5]],
        'first_oracle_failures': res['oracle_fail'][:5],
        'sampled': len(sample), 'distribution_of_sample': dist, 'outcomes_of_sample': outcomes,
        'sheets_on_longest_import_chain_of_sample': depths, 'observations_of_sample': extra,
        'real_code_observations': observations(), 'seconds': round(time.time() - t0, 1),
    }
