"""C13 — encoded output always decodes and re-parses to the same sheet.

Proof: lean/CssVerif/Props/C13.lean (escaping what the encoding lacks and reading it back is the identity;
the written text is encodable).  Tie: `escall`, `unesc`.  Search: sheets with non-ASCII characters at every
position that can hold them x every ASCII-transparent Python codec plus the UTF-16/32 family: the bytes
decode, start with @charset, are detected without a hint, and re-parse to the same object model.
"""
import codecs
import encodings
import pkgutil
import random
import time

from .. import corr, lib

lib.use_repo()
PROP = 'C13'


def _cp():
    import css_parser
    import logging
    css_parser.log.setLevel(logging.FATAL)
    css_parser.log.raiseExceptions = False
    return css_parser


NONASCII = ['é', 'ü', 'ß', 'Ω', 'ж', '中', '→', '€', '\xa0', '\xad', 'ÿ', 'İ', '\u2028', '\U0001F600', '\U0010FFFF', 'ا',
            # code points no encoding can express (a str may hold them): written as escapes by every codec, UTF-8/16/32 too
            '\udc9f', '\ud800']

# positions that can hold a non-ASCII character: {} is replaced by the planted string
POSITIONS = {
    'comment': '/* c{} d */ a {{ top: 0 }}',
    'type-selector': '{}x {{ top: 0 }}',
    'class': 'a.{} {{ top: 0 }}',
    'id': '#i{} {{ top: 0 }}',
    'attribute-value': 'a[title="{}"] {{ top: 0 }}',
    'property-name': 'a {{ -x-{}: 1 }}',
    'ident-value': 'a {{ font-family: f{} }}',
    'string-value': 'a {{ content: "s{}t" }}',
    'url-value': 'a {{ background: url(u{}.png) }}',
    'quoted-url': 'a {{ background: url("u {}.png") }}',
    'import-href': '@import "i{}.css";',
    'unknown-rule': '@foo {} "{}" url({});',
    'unknown-keyword': '@f{}o bar;',
    # at-keywords INSIDE an unknown rule are never made into rules: their names are what the tokenizer says
    'unknown-nested-keyword': '@foo @b{}r x;',
    'unknown-block-keyword': '@foo {{ @b{}r a b; p {{ color: red }} }}',
    'unknown-block-content': '@foo {{ x{}: "{}" #h{} .{} f{}(1{}) }}',
    'media-feature-string': '@media print {{ a {{ content: "{}" }} }}',
    'font-face': '@font-face {{ font-family: "{}"; src: url({}.woff) }}',
    'page-margin': '@page {{ @top-left {{ content: "{}" }} }}',
    'function-arg': 'a {{ content: attr(d{}) }}',
    'namespace-uri': '@namespace p "http://{}/"; p|a {{ top: 0 }}',
    'selector-after-escape-friendly-follower': 'a.{}b, a.{}1, a.{} c {{ top: 0 }}',
}


def ascii_transparent(name):
    try:
        info = codecs.lookup(name)
    except LookupError:
        return False
    probe = ''.join(chr(i) for i in range(32, 127)) + '\n\t'
    try:
        if probe.encode(name) != probe.encode('ascii'):
            return False
        if probe.encode('ascii').decode(name) != probe:
            return False
    except Exception:
        return False
    # single-byte-safe: ASCII bytes never occur inside a multi-byte sequence (shift_jis, big5, gbk … fail here)
    for ch in ('中', 'ж', 'é', '€', 'ا', 'Ω'):
        try:
            b = ch.encode(name)
        except Exception:
            continue
        if len(b) > 1 and any(x < 0x80 for x in b):
            return False
    return True


def all_codecs():
    names = set()
    for m in pkgutil.iter_modules(encodings.__path__):
        n = m.name
        if n in ('aliases', 'idna', 'punycode', 'raw_unicode_escape', 'unicode_escape', 'undefined', 'mbcs', 'oem', 'rot_13',
                 'base64_codec', 'bz2_codec', 'hex_codec', 'quopri_codec', 'uu_codec', 'zlib_codec', 'charmap', 'utf_7',
                 'utf_8_sig', 'utf_16', 'utf_32', 'utf_16_le', 'utf_16_be', 'utf_32_le', 'utf_32_be'):
            continue
        if ascii_transparent(n):
            names.add(codecs.lookup(n).name)
    return sorted(names)


UTF_FAMILY = ['utf-16', 'utf-32', 'utf-16-le', 'utf-16-be', 'utf-32-le', 'utf-32-be', 'utf-8']


def model(sheet):
    out = []

    def rule(r):
        t = r.type
        if t == r.STYLE_RULE:
            return ('style', [[(i.type, i.value if not isinstance(i.value, tuple) else tuple(i.value)) for i in s.seq
                               if i.type != 'S'] for s in r.selectorList],
                    [(p.name, [v.cssText for v in p.propertyValue], p.priority) for p in r.style.getProperties(all=True)])
        if t == r.COMMENT:
            return ('comment', r.cssText)
        if t == r.IMPORT_RULE:
            return ('import', r.href)
        if t == r.MEDIA_RULE:
            return ('media', r.media.mediaText, [rule(c) for c in r.cssRules])
        if t == r.PAGE_RULE:
            return ('page', r.selectorText, [(p.name, p.value) for p in r.style.getProperties(all=True)],
                    [rule(c) for c in r.cssRules])
        if t == getattr(r, 'MARGIN_RULE', -1):
            return ('margin', r.margin, [(p.name, p.value) for p in r.style.getProperties(all=True)])
        if t == r.FONT_FACE_RULE:
            return ('fontface', [(p.name, [v.cssText for v in p.propertyValue]) for p in r.style.getProperties(all=True)])
        if t == r.NAMESPACE_RULE:
            return ('namespace', r.prefix, r.namespaceURI)
        if t == r.UNKNOWN_RULE:
            return ('unknown', r.atkeyword, [getattr(i.value, 'cssText', i.value) for i in r.seq if i.type != 'S'])
        if t == r.CHARSET_RULE:
            return ('charset', r.encoding)
        return ('other', t, r.cssText)
    for r in sheet.cssRules:
        out.append(rule(r))
    return out


def run_case(case):
    cp = _cp()
    pos, planted, enc = case
    text = POSITIONS[pos].format(*([planted] * POSITIONS[pos].count('{}')))
    p = cp.CSSParser(fetcher=lambda u: (None, ''))
    sheet = p.parseString(text)
    m0 = model(sheet)
    if not m0 or any(x[0] == 'style' and not x[2] for x in m0):
        return ''          # the planted text is not valid at that position (e.g. U+2028 in an identifier): nothing to compare
    sheet.encoding = enc
    try:
        data = sheet.cssText
    except Exception as e:
        return 'cssText raised %s for %r planted at %s, encoding %s' % (type(e).__name__, planted, pos, enc)
    if not isinstance(data, bytes):
        return 'cssText is not a byte string'
    try:
        dec = data.decode(enc)
    except Exception as e:
        return 'cssText does not decode as %s (%s): %r planted at %s' % (enc, type(e).__name__, planted, pos)
    if not dec.lstrip('\ufeff').startswith('@charset "%s";' % enc):
        return 'output for encoding %s starts with %r' % (enc, dec[:30])
    # what the encoding cannot express must be written as an escape, everything else as itself
    try:
        planted.encode(enc)
        expressible = True
    except UnicodeEncodeError:
        expressible = False
    # (property names and at-keywords are written in their normalised, lower-case form)
    if expressible and pos not in ('selector-after-escape-friendly-follower', 'property-name', 'unknown-keyword', 'unknown-nested-keyword',
                                'unknown-block-keyword') and \
            planted not in dec:
        return 'the encoding %s has %r but the output does not contain it: %r' % (enc, planted, dec[:120])
    try:
        back = p.parseString(data)
    except Exception as e:
        return 'parsing the output back raised %s (%s, %r at %s)' % (type(e).__name__, enc, planted, pos)
    if codecs.lookup(back.encoding).name != codecs.lookup(enc).name:
        return 'output in %s is detected as %s' % (enc, back.encoding)
    m1 = model(back)
    if m1[:1] != [('charset', back.encoding)] or m1[1:] != [x for x in m0 if x[0] != 'charset']:
        a = [x for x in m0 if x[0] != 'charset']
        diff = [(x, y) for x, y in zip(a, m1[1:]) if x != y][:1]
        return 'sheet %r written in %s re-parses differently: %r' % (text, enc, diff or (a, m1))
    return ''


def oracle(case, _e=None):
    try:
        return run_case(case)
    except Exception:
        import traceback
        return 'harness raised: ' + traceback.format_exc()[-300:]


# ------------------------------------------------------------------ correspondence

def esc_cases(tier, seed):
    rnd = random.Random(seed + 13)
    alpha = list('ab09AF .{};:"\'(\n') + NONASCII[:10] + ['\x80', '\xff', 'Ā']
    cases = []
    for _ in range(400 if tier == 'quick' else 6000):
        cases.append(('esc', rnd.choice(['ascii', 'latin1']), ''.join(rnd.choice(alpha) for _ in range(rnd.randint(0, 12)))))
    return cases


def esc_py(case):
    _, enc, t = case
    return lib.enc(t.encode('ascii' if enc == 'ascii' else 'latin-1', 'escapecss').decode('latin-1'))


def esc_line(case):
    return 'escall %s %s' % (case[1], lib.enc(case[2]))


def unesc_cases(tier, seed):
    rnd = random.Random(seed + 131)
    alpha = list('\\\\\\aAfF0179gz \t\n\r\f"é') + ['\U0010ffff', '\r\n'] + list('dD8cCbBeE') + ['\x0b', '\x1c', '\x85', '\xa0', '\u2003', '\u3000']   # white space for Python, not for CSS
    cases = [('unesc', c) for c in ['\\110000 x', '\\110000\r\nx', '\\FFFFFF', '\\0', '\\000000a', '\\10FFFF ', '\\D800 x', '\\E9 a',
                                    '\\E9a', '\\E9  a', '\\e9\r\na',
                                    # the edges of the surrogate block, of the BMP and of Unicode
                                    '\\D7FF', '\\D800', '\\d800 ', '\\DBFF', '\\DC00', '\\dc9f x', '\\DFFF', '\\E000', '\\FFFD', '\\FFFE',
                                    '\\FFFF', '\\10000', '\\10FFFE', '\\10FFFF', '\\110000', '\\00D800', '\\00DFFFa', '\\7F', '\\80', '\\1']]
    for _ in range(600 if tier == 'quick' else 10000):
        cases.append(('unesc', ''.join(rnd.choice(alpha) for _ in range(rnd.randint(0, 10)))))
    return cases


def unesc_py(case):
    """the escape reading of the running tokenizer (its own replacement callback, not a copy of it): the text is put
    inside a comment, a token kind that goes through the escape reader and may hold any character"""
    cp = _cp()
    toks = list(cp.tokenize2.Tokenizer().tokenize('/*' + case[1] + '*/'))
    assert toks[0][0] == 'COMMENT' and len(toks) == 1, toks
    return lib.enc(toks[0][1][2:-2])


def unesc_line(case):
    return 'unesc %s' % lib.enc(case[1])


def gen_cases(tier, seed):
    rnd = random.Random(seed)
    encs = all_codecs() + [e for e in UTF_FAMILY if e != 'utf-8']
    cases = []
    # every position x every planted character under ascii, latin-1, utf-16 and a rotating third codec
    for pos in POSITIONS:
        for i, ch in enumerate(NONASCII):
            for enc in ('ascii', 'iso8859-1', 'utf-16', encs[(i * 7 + len(pos)) % len(encs)]):
                cases.append((pos, ch, enc))
    # every codec x a fixed set of positions
    for enc in encs:
        for pos in ('comment', 'class', 'string-value', 'url-value', 'unknown-keyword', 'unknown-block-keyword'):
            cases.append((pos, 'é→', enc))
    for _ in range(300 if tier == 'quick' else 8000):
        planted = ''.join(rnd.choice(NONASCII + ['a', '1']) for _ in range(rnd.randint(1, 4)))
        cases.append((rnd.choice(list(POSITIONS)), planted, rnd.choice(encs)))
    return cases, encs


def run(tier, seed):
    t0 = time.time()
    import css_parser.serialize  # noqa  (registers the error handler used by esc_py)
    build = lib.build_and_audit(PROP)
    findings = lib.Findings(PROP)
    broken = []
    cases, encs = gen_cases(tier, seed)
    res = corr.run('c13', cases, lambda c: 'numval -', lambda c: '~', oracle, chunk=150)
    for case, why in res['oracle_fail'][:10]:
        findings.add('encode', repr(case), why)
    ec = esc_cases(tier, seed)
    uc = unesc_cases(tier, seed)
    resE = corr.run('c13e', ec, esc_line, esc_py, None, chunk=500)
    resU = corr.run('c13u', uc, unesc_line, unesc_py, None, chunk=500)
    for name, r in (('escall', resE), ('unesc', resU)):
        if r['n_mismatch']:
            c, line, e, g = r['mismatches'][0]
            broken.append('correspondence op `%s` diverges on %d inputs; first %r: impl=%s model=%s' % (
                name, r['n_mismatch'], c[1:], e[:100], g[:100]))
    # how much of the escaping code do the inputs execute (a measurement, not a verdict)
    coverage_lines = lib.modelled_code_coverage([('css_parser.serialize', '_escapecss'), ('css_parser.serialize', 'CSSSerializer.do_CSSStyleSheet')],
                                                [lambda c=c: esc_py(c) for c in ec[::max(1, len(ec) // 300)]] +
                                                [lambda c=c: oracle(c) for c in cases[::max(1, len(cases) // 200)]], limit=600)
    coverage = {
        'modelled_code_line_coverage': coverage_lines,
        'evaluations': res['n'] + resE['n'] + resU['n'],
        'distinct_nontrivial': len(set(cases)) + len(set(ec)) + len(set(uc)),
        'rule': '22 positions that can hold a non-ASCII character (comment, type/class/id selector, attribute value, property '
                'name, identifier / string / URL values, @import href, unknown rule content and keyword, @font-face, margin '
                'rule, function argument, namespace URI, escape followed by a letter / digit / space) x 16 planted characters '
                '(Latin-1, Greek, Cyrillic, CJK, arrows, NBSP, soft hyphen, U+2028, astral, U+10FFFF, Arabic) x {ascii, '
                'iso8859-1, utf-16, a rotating codec}; every ASCII-transparent codec of the installation (%d, enumerated from '
                'the encodings package and probed) and the UTF-16/32 family x 6 positions; random plantings; checked: bytes '
                'decode, start with @charset, expressible characters written as themselves, re-parse without hint detects '
                'the encoding and gives the same object model' % len(encs),
        'traces_validated_against_impl': resE['n'] + resU['n'],
        'exhaustive': False,
        'distribution': {'codecs': len(encs), 'cases': len(cases)},
        'samples': [repr(cases[i]) for i in (3, len(cases) // 2, len(cases) - 1)],
        'correspondence_mismatches': resE['n_mismatch'] + resU['n_mismatch'],
        'oracle_failures': res['n_oracle_fail'],
    }
    assumptions = ['"supported encoding" = a Python codec that is ASCII-transparent (ASCII bytes mean ASCII and never occur '
                   'inside a multi-byte sequence) or a member of the UTF-16/32 family; detection itself is C14']
    return lib.finish(PROP, tier, seed, t0, build, findings, coverage, assumptions, broken)
