"""C15 — selectors are bound to namespace URIs, not prefixes.

Proof: lean/CssVerif/Props/C15.lean.  Tie: `sel` (items with namespace for every prefix form, declared or
not), `sheet` (namespace-focused operation histories: result, rule list, view), `nsform` (written form of
every stored pair under the mapping in force, and what it denotes when parsed again).
Search: histories on real sheets parsed from text (0-3 namespace declarations, every prefix form), with
the oracles of the property evaluated after every operation.
"""
import itertools
import random
import time
import xml.dom

from .. import corr, lib
from . import c07, c16

lib.use_repo()
PROP = 'C15'

PFX = ['', 'p', 'q', 'r']
URIS = ['u1', 'u2', 'u3']
PID = {p: i for i, p in enumerate(PFX)}
UID = {u: i + 1 for i, u in enumerate(URIS)}


def _cp():
    import css_parser
    import logging
    css_parser.log.setLevel(logging.FATAL)
    css_parser.log.raiseExceptions = True
    return css_parser


# ------------------------------------------------------------------ selectors with every prefix form

FORMS = ['e', 'P|e', '|e', '*|e', 'P|*', '*', '[P|a]', '[a]', '*|*', '|*', ':not(P|e)', 'e P|f', '[|a]']


def form_text(form, p):
    return form.replace('P', p)


def expected_pairs(form, p, binding):
    """pairs by construction; None if the selector must be rejected (undeclared prefix)"""
    cp = _cp()
    dflt = binding.get('')
    uses_p = 'P' in form
    if uses_p and p not in binding:
        return None
    u = binding.get(p)
    table = {
        'e': [(dflt, 'e')], 'P|e': [(u, 'e')], '|e': [('', 'e')], '*|e': [(cp._ANYNS, 'e')], 'P|*': [(u, '*')],
        '*': [(dflt, '*')], '[P|a]': [(u, 'a')], '[a]': [], '*|*': [(cp._ANYNS, '*')], '|*': [('', '*')],
        ':not(P|e)': [(u, 'e')], 'e P|f': [(dflt, 'e'), (u, 'f')], '[|a]': [],
    }
    return table[form]


def pairs_of_selector(sel):
    return [i.value for i in sel.seq if isinstance(i.value, tuple)]


def sel_cases():
    cases = []
    maps = [{}, {'p': 'u1'}, {'': 'u2'}, {'': 'u2', 'p': 'u1'}, {'p': 'u1', 'q': 'u1'}, {'p': 'u1', 'q': 'u2', '': 'u3'}]
    for m in maps:
        for f in FORMS:
            for p in ['p', 'q', 'z']:
                if 'P' not in f and p != 'p':
                    continue
                cases.append((form_text(f, p), m, (f, p)))
    return cases


def sel_oracle(c, _e=None):
    cp = _cp()
    text, m, (f, p) = c
    exp = expected_pairs(f, p, m)
    try:
        s = cp.css.Selector((text, dict(m)))
        ok = s.wellformed
    except xml.dom.NamespaceErr:
        return '' if exp is None else 'selector %r with namespaces %r rejected with NamespaceErr' % (text, m)
    except xml.dom.DOMException as e:
        return 'selector %r with namespaces %r rejected with %s' % (text, m, type(e).__name__)
    if exp is None:
        return 'selector %r uses the undeclared prefix %r under %r but was accepted' % (text, p, m)
    if not ok:
        return 'selector %r not wellformed' % text
    got = pairs_of_selector(s)
    if got != exp:
        return 'selector %r under %r stores %r, the prefixes denote %r' % (text, m, got, exp)
    return ''


# ------------------------------------------------------------------ histories on sheets parsed from text

def start_text(decls, sels, extra):
    out = []
    if extra == 'charset':
        out.append('@charset "utf-8";')
    if extra == 'import':
        out.append('@import "x.css";')
    for p, u in decls:
        out.append('@namespace %s"%s";' % (p + ' ' if p else '', u))
    for i, (f, p) in enumerate(sels):
        t = form_text(f, p)
        if i % 4 == 3:
            out.append('@media print { %s { top: 0 } }' % t)
        else:
            out.append('%s { top: 0 }' % t)
    return ' '.join(out)


def style_rules(sheet):
    out = []
    for r in sheet.cssRules:
        if r.type == r.STYLE_RULE:
            out.append(r)
        elif r.type == r.MEDIA_RULE:
            out.extend(c for c in r.cssRules if c.type == c.STYLE_RULE)
    return out


def rule_pairs(rule):
    return [pairs_of_selector(s) for s in rule.selectorList]


def rule_typed(rule):
    return [[(i.type,) + tuple(i.value) for i in s.seq if isinstance(i.value, tuple)] for s in rule.selectorList]


def ns_rules(sheet):
    return [r for r in sheet.cssRules if r.type == r.NAMESPACE_RULE]


def view_of(sheet):
    return dict(sheet.namespaces.namespaces)


def parse_quiet(text):
    cp = _cp()
    try:
        cp.log.raiseExceptions = False
        p = cp.CSSParser(fetcher=lambda url: None, raiseExceptions=False)
        return p.parseString(text)
    finally:
        cp.log.raiseExceptions = True


def ns_code(ns):
    cp = _cp()
    if ns is None:
        return 'N'
    if ns == cp._ANYNS:
        return 'A'
    if ns == '':
        return 'E'
    return 'U%d' % UID[ns]


def written_form(text):
    """form of the first name in a serialised single selector"""
    t = text.strip()
    if t.startswith(':not('):
        t = t[5:]
    if t.startswith('['):
        t = t[1:]
    t = t.split(' ')[0]
    if '|' not in t:
        return 'B'
    p = t.split('|')[0]
    if p == '*':
        return 'S'
    if p == '':
        return 'R'
    return 'P%d' % PID[p]


def view_code(view):
    if not view:
        return '-'
    return ','.join('%d=%d' % (PID[p], UID[u]) for p, u in view.items())


def apply_op(sheet, op):
    cp = _cp()
    k = op[0]
    if k == 'nsset':
        sheet.namespaces[op[1]] = op[2]
    elif k == 'nsdel':
        del sheet.namespaces[op[1]]
    elif k == 'addns':
        _, p, u, how = op
        if how == 'text':
            sheet.add('@namespace %s"%s";' % (p + ' ' if p else '', u))
        elif how == 'obj':
            sheet.add(cp.css.CSSNamespaceRule(prefix=p, namespaceURI=u))
        else:
            sheet.insertRule(cp.css.CSSNamespaceRule(prefix=p, namespaceURI=u), how)
    elif k == 'addstyle':
        sheet.add('%s { top: 0 }' % form_text(op[1], op[2]))
    else:
        raise AssertionError(op)


def run_history(case, observe=None):
    """returns '' or the first oracle failure; `observe(view, ns, form, back)` collects nsform tuples"""
    cp = _cp()
    decls, sels, extra, ops = case
    text = start_text(decls, sels, extra)
    sheet = parse_quiet(text)
    # parse-time binding: a re-declared prefix takes the later URI
    binding = {}
    for p, u in decls:
        binding[p] = u
    # --- stored_uri / undeclared_rejected at parse time
    exp_rules = [expected_pairs(f, p, binding) for f, p in sels]
    got_rules = [rule_pairs(r)[0] for r in style_rules(sheet)]
    want = [e for e in exp_rules if e is not None]
    if got_rules != want:
        return 'parse of %r: selector pairs %r, the declared prefixes denote %r (None = must be dropped)' % (
            text, got_rules, exp_rules)
    why = check_state(sheet, 'after parsing %r' % text, observe)
    if why:
        return why
    for n, op in enumerate(ops):
        before_pairs = [(r, rule_pairs(r)) for r in style_rules(sheet)]
        before_text = sheet.cssText
        before_view = view_of(sheet)
        where = 'start %r, after op %d of %r' % (text, n, list(ops[:n + 1]))
        try:
            apply_op(sheet, op)
            res = 'ok'
        except xml.dom.DOMException as e:
            res = type(e).__name__
        except Exception as e:
            return '%s: raised %s (not a DOM exception)' % (where, type(e).__name__)
        if res != 'ok' and sheet.cssText != before_text:
            return '%s: refused with %s but the sheet changed' % (where, res)
        # O1: no namespace operation changes a selector's pairs
        for r, pr in before_pairs:
            if rule_pairs(r) != pr:
                return '%s: pairs of %r changed from %r to %r' % (where, r.selectorText, pr, rule_pairs(r))
        still = style_rules(sheet)
        for r, pr in before_pairs:
            if not any(r is s for s in still):
                return '%s: the style rule %r disappeared' % (where, r.selectorText)
        if op[0] == 'addstyle':
            exp = expected_pairs(op[1], op[2], before_view)
            if exp is None:
                if res == 'ok':
                    return '%s: selector with undeclared prefix %r accepted' % (where, op[2])
            elif res != 'ok':
                return '%s: selector %r refused with %s although its prefix is declared' % (where, form_text(op[1], op[2]), res)
            else:
                new = [r for r in still if not any(r is b for b, _ in before_pairs)]
                if len(new) != 1 or rule_pairs(new[0])[0] != exp:
                    return '%s: new selector stores %r, its prefix denotes %r' % (
                        where, [rule_pairs(x) for x in new], exp)
        why = check_state(sheet, where, observe)
        if why:
            return why
    return ''


KNOWN_NONE_PAIR = 'None-pair written |name once a default namespace exists'
KNOWN_ATTR_DEFAULT = 'attribute bound to the URI of the default namespace written without prefix'


def explain(typed, view):
    """what the two recorded findings turn the stored pairs into on re-parse; returns (pairs, signatures used)"""
    used = set()
    dflt = view.get('')
    out = []
    for rule in typed:
        r2 = []
        for sel in rule:
            s2 = []
            for typ, ns, name in sel:
                if ns is None and dflt and typ != 'attribute-selector':
                    used.add(KNOWN_NONE_PAIR)
                    s2.append(('', name))
                elif typ == 'attribute-selector' and dflt and ns == dflt:
                    used.add(KNOWN_ATTR_DEFAULT)
                else:
                    s2.append((ns, name))
            r2.append(s2)
        out.append(r2)
    return out, used


def check_state(sheet, where, observe):
    cp = _cp()
    view = view_of(sheet)
    nsr = ns_rules(sheet)
    # O2: the view is the mapping of the effective rules: later rules win, one prefix per URI
    eff = {}
    for r in reversed(nsr):
        if r.prefix not in eff and r.namespaceURI not in eff.values():
            eff[r.prefix] = r.namespaceURI
    if view != eff:
        return '%s: sheet.namespaces is %r, the effective @namespace rules give %r' % (where, view, eff)
    if len(set(view.values())) != len(view):
        return '%s: sheet.namespaces binds one URI to two prefixes: %r' % (where, view)
    # O3: every rule serialises with its URI
    for r in nsr:
        if ('"%s"' % r.namespaceURI) not in r.cssText:
            return '%s: @namespace rule (%r, %r) serialises as %r' % (where, r.prefix, r.namespaceURI, r.cssText)
    # O4: a URI in use stays declared
    for r in style_rules(sheet):
        for pr in rule_pairs(r):
            for ns, name in pr:
                if ns not in (None, '', cp._ANYNS) and ns not in view.values():
                    return '%s: selector %r is bound to %r which no effective @namespace rule declares (view %r)' % (
                        where, r.selectorText, ns, view)
    # O5: the serialised sheet re-parses to the same pairs and the same mapping
    text = sheet.cssText
    if isinstance(text, bytes):
        text = text.decode('utf-8')
    back = parse_quiet(text)
    if view_of(back) != view:
        return '%s: serialised sheet %r re-parses with namespaces %r, had %r' % (where, text, view_of(back), view)
    a = [rule_pairs(r) for r in style_rules(sheet)]
    b = [rule_pairs(r) for r in style_rules(back)]
    if observe is not None:
        for r, r2 in zip(style_rules(sheet), style_rules(back)):
            t1 = rule_typed(r)[0]
            if len(t1) >= 1:
                t2 = rule_typed(r2)[0] if rule_typed(r2) else []
                attr = t1[0][0] == 'attribute-selector'
                if attr:
                    # a re-parsed attribute without a pair is "not namespaced"
                    back_ns = ns_code(t2[0][1]) if (t2 and t2[0][0] == 'attribute-selector') else 'N'
                elif len(t2) == len(t1):
                    back_ns = ns_code(t2[0][1])
                else:
                    continue
                observe((view_code(view), '1' if attr else '0', ns_code(t1[0][1]), written_form(r.selectorText), back_ns))
    if a != b:
        ex, used = explain([rule_typed(r) for r in style_rules(sheet)], view)
        if ex == b and used:
            return 'KNOWN:' + ' && '.join(sorted(used))
        return '%s: serialised sheet %r re-parses to pairs %r, the sheet holds %r' % (where, text, b, a)
    return ''


def hist_oracle(case, _e=None):
    return run_history(case)


def none_pair_possible(decls, sels, ops):
    """a selector parsed without default namespace and a default namespace declared afterwards"""
    return True


def gen_histories(tier, seed):
    rnd = random.Random(seed)
    cases = []
    decl_alpha = [(p, u) for p in ['', 'p', 'q'] for u in URIS]
    op_alpha = ([('nsset', p, u) for p in PFX for u in URIS] + [('nsdel', p) for p in PFX] +
                [('addns', p, u, how) for p in ['', 'p', 'q'] for u in URIS[:2] for how in ('text', 'obj', 0)] +
                [('addstyle', f, p) for f in ['e', 'P|e', '[P|a]', '*|e'] for p in ['p', 'q']])
    # exhaustive: every start of <= 2 declarations x one selector form per prefix x every history of <= 2 ops
    starts = [()] + [(d,) for d in decl_alpha] + [(d1, d2) for d1 in decl_alpha[:6] for d2 in decl_alpha]
    n = 0
    for decls in starts:
        declared = [p for p, _ in decls if p]
        sels = [('e', 'p'), ('*|e', 'p'), ('|e', 'p')] + [(f, p) for p in declared for f in ('P|e', '[P|a]')]
        for op in op_alpha:
            cases.append((decls, tuple(sels), '', (op,)))
            n += 1
    if tier != 'quick':
        for decls in starts[:40]:
            declared = [p for p, _ in decls if p]
            sels = [('e', 'p')] + [(f, p) for p in declared for f in ('P|e',)]
            for h in itertools.product(op_alpha[:28], repeat=2):
                cases.append((decls, tuple(sels), '', h))
                n += 1
    n_rand = 700 if tier == 'quick' else 12000
    for _ in range(n_rand):
        decls = tuple(rnd.choice(decl_alpha) for _ in range(rnd.randint(0, 3)))
        declared = [p for p, _ in decls if p]
        sels = []
        for _ in range(rnd.randint(1, 5)):
            f = rnd.choice(FORMS)
            p = rnd.choice(declared) if declared and rnd.random() < 0.9 else rnd.choice(['p', 'q', 'z'])
            sels.append((f, p))
        extra = rnd.choice(['', '', '', 'charset', 'import'])
        ops = tuple(rnd.choice(op_alpha) for _ in range(rnd.randint(1, 8 if tier == 'quick' else 14)))
        cases.append((decls, tuple(sels), extra, ops))
    return cases, {'exhaustive_histories': n, 'random_histories': n_rand, 'ops_alphabet': len(op_alpha),
                   'starts': len(starts)}


def _hist_work(chunk):
    obs = set()
    fails = []
    for case in chunk:
        try:
            why = run_history(case, obs.add)
        except Exception as e:
            import traceback
            why = 'harness raised: ' + traceback.format_exc()[-400:]
        if why:
            fails.append((case, why))
    return obs, fails, len(chunk)


def run_histories(cases):
    import multiprocessing as mp
    chunks = [cases[i:i + 200] for i in range(0, len(cases), 200)]
    ctx = mp.get_context('fork')
    with ctx.Pool(min(lib.NPROC, max(1, len(chunks)))) as pool:
        outs = pool.map(_hist_work, chunks)
    obs, fails = set(), []
    for o, f, _ in outs:
        obs |= o
        fails.extend(f)
    return obs, fails


# ------------------------------------------------------------------ namespace-focused `sheet` histories (model ops)

def sheet_cases(tier, seed):
    rnd = random.Random(seed + 15)
    ns_rules_ = ['n:0:1', 'n:0:2', 'n:1:1', 'n:1:2', 'n:2:1', 'n:2:2']
    styles = ['s', 's:1', 's:2', 's:0', 'm']
    ops = ([('ins', c, None, True, False) for c in ns_rules_ + styles] +
           [('ins', c, i, False, False) for c in ns_rules_ for i in (0, 1)] +
           [('nsset', p, u) for p in (0, 1, 2) for u in (1, 2)] + [('nsdel', p) for p in (0, 1, 2)] +
           [('del', i) for i in (0, 1, -1)])
    cases = [h for h in itertools.product(ops, repeat=2)]
    first = [o for o in ops if o[0] == 'ins' and o[3]]
    for h in itertools.product(first[:6], first, ops):
        cases.append(h)
    n_exh = len(cases)
    for _ in range(400 if tier == 'quick' else 6000):
        cases.append(tuple(rnd.choice(ops) for _ in range(rnd.randint(4, 14))))
    return cases, n_exh


def run(tier, seed):
    t0 = time.time()
    build = lib.build_and_audit(PROP)
    findings = lib.Findings(PROP)
    broken = []
    # A: selector items for every prefix form
    sc = sel_cases()
    resA = corr.run('c15sel', sc, c16.line_of, c16.py_of, sel_oracle, chunk=400)
    for case, why in resA['oracle_fail'][:6]:
        findings.add('selector', '%s under %r' % (case[0], case[1]), why)
    if resA['n_mismatch']:
        c, line, e, g = resA['mismatches'][0]
        broken.append('correspondence op `sel` diverges on %d selectors; first %r under %r\n impl=%s\n model=%s' % (
            resA['n_mismatch'], c[0], c[1], e[:300], g[:300]))
    # B: histories on sheets parsed from text, oracles + nsform observations
    hcases, dist = gen_histories(tier, seed)
    obs, fails = run_histories(hcases)
    known_hits = 0
    new_fails = []
    for case, why in fails:
        if why.startswith('KNOWN:'):
            known_hits += 1
            for sig in why[6:].split(' && '):
                findings.add('reparse', sig, 'history %r: %s' % (case, sig))
        else:
            new_fails.append((case, why))
    for case, why in new_fails[:5]:
        decls, sels, extra, ops = case

        def fails_ops(o, case=case):
            w = run_history((case[0], case[1], case[2], tuple(o)))
            return bool(w) and not w.startswith('KNOWN:')
        small_ops = lib.shrink_seq(tuple(ops), fails_ops) if len(ops) > 1 else ops
        small = (decls, sels, extra, tuple(small_ops))

        def fails_sels(s, small=small):
            w = run_history((small[0], tuple(s), small[2], small[3]))
            return bool(w) and not w.startswith('KNOWN:')
        small_sels = lib.shrink_seq(tuple(sels), fails_sels) if len(sels) > 1 else sels
        small = (decls, tuple(small_sels), extra, tuple(small_ops))
        w = run_history(small)
        if not w or w.startswith('KNOWN:'):
            small, w = case, why
        findings.add('history', repr(small), w)
    # C: written forms against the model
    ocases = sorted(obs)
    resC = corr.run('c15form', ocases, lambda o: 'nsform %s %s %s' % (o[0], o[1], o[2]), lambda o: '%s;%s' % (o[3], o[4]),
                    None, chunk=500)
    if resC['n_mismatch']:
        c, line, e, g = resC['mismatches'][0]
        broken.append('correspondence op `nsform` diverges on %d (mapping, pair) combinations; first mapping %s attr=%s pair %s: '
                      'impl writes/re-reads %s, model %s' % (resC['n_mismatch'], c[0], c[1], c[2], e, g))
    # D: model operations
    shc, n_exh = sheet_cases(tier, seed)
    resD = corr.run('c15sheet', shc, c07.line_of, c07.py_of, None, chunk=600)
    if resD['n_mismatch']:
        c, line, e, g = resD['mismatches'][0]
        broken.append('correspondence op `sheet` diverges on %d namespace histories; first %r\n impl=%s\n model=%s' % (
            resD['n_mismatch'], c, e[-400:], g[-400:]))
    probes = {KNOWN_NONE_PAIR: ((), (('e', 'p'),), '', (('nsset', '', 'u1'),)),
              KNOWN_ATTR_DEFAULT: ((('p', 'u1'),), (('[P|a]', 'p'),), '', (('nsset', '', 'u1'),))}
    findings.probe_known(lambda f: f.get('key') in probes and
                         f['key'] in run_history(probes[f['key']]))
    coverage = {
        'evaluations': resA['n'] + sum(len(c[3]) + 1 for c in hcases) + resC['n'] + sum(len(h) for h in shc),
        'distinct_nontrivial': len(set(hcases)) + len(set(shc)),
        'rule': 'A: 13 selector forms (p|e |e *|e e p|* * [p|a] [a] *|* |* :not(p|e) "e p|f" [|a]) x 6 mappings x declared / '
                'undeclared prefixes, pairs known by construction; B: sheets parsed from text with 0-3 @namespace '
                'declarations (default, prefixed, duplicate URIs, re-declared prefixes, optional @charset/@import, a rule '
                'inside @media) and every selector form x histories of namespaces[p]=u / del namespaces[p] / @namespace '
                'insertion (text, object, index) / style rule insertion; every start of <= 2 declarations x every single '
                'operation (thorough: every pair of operations), then seeded random histories; after EVERY operation: pairs '
                'unchanged, view = effective rules, rules serialise with URI, used URIs declared, re-parse gives the same '
                'pairs and mapping; C: every (mapping, stored namespace) combination met is sent to the model (`nsform`); '
                'D: namespace-focused histories through the sheet model (`sheet`)',
        'traces_validated_against_impl': resA['n'] + resC['n'] + resD['n'],
        'exhaustive': True,
        'distribution': dict(dist, sheet_exhaustive=n_exh, nsform_combinations=len(ocases),
                             known_finding_histories=known_hits),
        'samples': [repr(hcases[i]) for i in (3, len(hcases) // 2, len(hcases) - 1)],
        'correspondence_mismatches': resA['n_mismatch'] + resC['n_mismatch'] + resD['n_mismatch'],
        'oracle_failures': resA['n_oracle_fail'] + len(new_fails),
    }
    assumptions = ['URIs are non-empty strings; prefixes and URIs are abstracted to small identifiers in the sheet model',
                   'the written form is read off the first name of each (single-selector) rule']
    return lib.finish(PROP, tier, seed, t0, build, findings, coverage, assumptions, broken)
