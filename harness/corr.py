"""Generic parallel correspondence runner: same cases to the real code and to the Lean driver."""
import multiprocessing as mp
import traceback

from . import lib

_FNS = {}


def _work(args):
    key, chunk = args
    line_of, py_of, oracle, judge = _FNS[key]
    lines = [line_of(c) for c in chunk]
    exp = []
    for c in chunk:
        try:
            exp.append(py_of(c))
        except Exception as e:  # the real code raised where no exception is expected
            exp.append('PYEXC %s: %s' % (type(e).__name__, str(e)[:80]))
    got = lib.run_driver(lines)
    mism = []
    orc = []
    for c, l, e, g in zip(chunk, lines, exp, got):
        if (judge(c, e, g) if judge else e != g):
            mism.append((c, l, e, g))
        if oracle is not None:
            try:
                v = oracle(c, e)
            except Exception:
                v = 'oracle raised: ' + traceback.format_exc()[-300:]
            if v:
                orc.append((c, v))
    return len(chunk), mism[:20], orc[:2000], len(mism), len(orc)


def run(key, cases, line_of, py_of, oracle=None, chunk=2000, procs=None, judge=None):
    """returns dict(n, mismatches=[(case, line, expected_from_impl, got_from_model)], oracle_fail=[(case, why)])"""
    # judge(case, impl, model) → True when the pair counts as a disagreement (default: they differ)
    _FNS[key] = (line_of, py_of, oracle, judge)
    cases = list(cases)
    chunks = [(key, cases[i:i + chunk]) for i in range(0, len(cases), chunk)]
    res = {'n': 0, 'mismatches': [], 'oracle_fail': [], 'n_mismatch': 0, 'n_oracle_fail': 0}
    procs = procs or lib.NPROC
    if len(chunks) <= 1 or procs == 1:
        outs = [_work(c) for c in chunks]
    else:
        ctx = mp.get_context('fork')
        with ctx.Pool(min(procs, len(chunks))) as pool:
            outs = pool.map(_work, chunks)
    for n, mism, orc, nm, no in outs:
        res['n'] += n
        res['mismatches'].extend(mism)
        res['oracle_fail'].extend(orc)
        res['n_mismatch'] += nm
        res['n_oracle_fail'] += no
    return res
