"""Generator grammar G for whole style sheets (C02, C03, C05, C10): an AST with the expected object model by
construction, rendered under a *layout* (white space / comment placement / separators) and a *spelling*
(letter case, escapes, quoting) that CSS defines as insignificant."""
import random


NAMES = ['color', 'top', 'margin', 'font-family', 'background', 'content', 'width', '-x-custom', 'border-left-width']
IDENTS = ['auto', 'none', 'serif', 'no-repeat', 'inherit', 'x-small', 'bold']
UNITS = ['px', 'em', '%', 'deg', 's', 'pt']
FUNCS = ['attr', 'counter', 'translate', 'x-fn']
COLORS = ['#fff', '#a1b2c3', '#000', 'red', 'transparent', 'rgb(1, 2, 3)', 'rgba(0, 0, 0, 0.5)', 'hsl(120, 50%, 50%)', 'rgb(10%, 20%, 30%)']
MEDIA = ['print', 'screen', 'tv', 'all', 'handheld']
LENGTHS = ('cm', 'mm', 'in', 'px', 'pc', 'pt', 'em', 'ex')
NUMS = ['0', '1', '12', '1.5', '-3', '0.25', '100', '+1.5', '.5', '-.25', '1.0', '010', '0.0', '-0', '3.14159265', '0.0000004',
        '100000000', '1.9999999', '+0', '00.50',
        # whole numbers a double cannot hold exactly (2**53 + 1 and larger): the model keeps the integer
        '9007199254740993', '12345678901234567891', '-99999999999999999999']
BIG_INTS = [n for n in NUMS if len(n.lstrip('+-')) >= 16 and '.' not in n]


def walk_comps(node):
    """every value component of an AST (also the arguments of functions)"""
    if isinstance(node, Comp):
        yield node
        for a in getattr(node, 'args', ()):
            for c in walk_comps(a):
                yield c
    elif isinstance(node, (list, tuple)):
        for x in node:
            for c in walk_comps(x):
                yield c


def big_int_counts(ast):
    """how often each integer of BIG_INTS is written in the sheet (as a number or as the number of a dimension)"""
    out = {}
    for c in walk_comps(ast):
        if c.kind in ('NUMBER', 'DIMENSION', 'PERCENTAGE'):
            for b in BIG_INTS:
                if c.text.startswith(b) and not c.text[len(b):][:1].isdigit() and not c.text[len(b):].startswith('.'):
                    out[int(b)] = out.get(int(b), 0) + 1
    return out


def model_int_counts(sheet):
    """how often each of them is the exact value of a component of the parsed sheet"""
    want = set(int(b) for b in BIG_INTS)
    out = {}

    def comp(v):
        if getattr(v, 'type', None) in ('NUMBER', 'DIMENSION', 'PERCENTAGE'):
            if isinstance(v.value, int) and v.value in want:
                out[v.value] = out.get(v.value, 0) + 1
        for i in getattr(v, 'seq', ()) if getattr(v, 'type', None) in ('FUNCTION', 'CALC', 'COLOR_VALUE', 'VARIABLE') else ():
            if hasattr(i.value, 'type'):
                comp(i.value)

    def block(style):
        for p in style.getProperties(all=True):
            for v in p.propertyValue:
                comp(v)

    def rules(rs):
        for r in rs:
            if hasattr(r, 'style') and r.style is not None:
                block(r.style)
            if hasattr(r, 'cssRules'):
                rules(r.cssRules)
    rules(sheet.cssRules)
    return out
FEATURES = [('min-width', '100px'), ('max-width', '40em'), ('orientation', 'landscape'), ('color', None), ('min-resolution', '2'),
            ('monochrome', None), ('max-height', '50%')]


def gen_mq(rnd, simple=0.6):
    """a media query as a tuple of tokens (canonical, lower-case)"""
    if rnd.random() < simple:
        return (rnd.choice(MEDIA[:3]),)

    def expr():
        f, v = rnd.choice(FEATURES)
        return ('(', f) + ((':', v) if v else ()) + (')',)
    q = ()
    if rnd.random() < 0.7:
        if rnd.random() < 0.4:
            q += (rnd.choice(['only', 'not']),)
        q += (rnd.choice(MEDIA[:3]),)
        for _ in range(rnd.randint(0 if len(q) > 1 else 1, 2)):
            q += ('and',) + expr()
    else:
        q += expr()
        for _ in range(rnd.randint(0, 1)):
            q += ('and',) + expr()
    return q


def gen_mqs(rnd, lo, hi):
    out = []
    for _ in range(rnd.randint(lo, hi)):
        q = gen_mq(rnd)
        if q not in out:
            out.append(q)
    return out


def render_mq(q, lay, sp):
    out = []
    for i, t in enumerate(q):
        if i:
            prev = q[i - 1]
            # white space is needed between two words and before '(' after a word ('and(' would be a function)
            need = (prev not in '(:)' and t not in '(:)') or (t == '(' and prev not in '(:)')
            out.append(lay.ws(need))
        if t in '(:)' or t[0].isdigit():
            out.append(t)
        elif i and q[i - 1] == '(':
            out.append(sp.keyword(t))          # feature name
        elif i and q[i - 1] == ':':
            out.append(sp.value(Comp('IDENT', t)))
        else:
            out.append(sp.mediaword(t))        # media type, and / only / not (their spelling is kept in mediaText)
    return ''.join(out)



class Comp:
    """one component of a value: kind, canonical value, source text"""

    def __init__(self, kind, value, text=None):
        self.kind, self.value, self.text = kind, value, text if text is not None else value

    def key(self):
        return (self.kind, self.value)


def gen_value(rnd, depth=0):
    comps = []
    n = rnd.randint(1, 4)
    for i in range(n):
        k = rnd.choice(['ident', 'number', 'dimension', 'string', 'url', 'hash', 'function', 'calc', 'urange'] if depth < 2
                       else ['ident', 'number', 'dimension'])
        if k == 'ident':
            comps.append(Comp('IDENT', rnd.choice(IDENTS)))
        elif k == 'number':
            v = rnd.choice(NUMS)
            comps.append(Comp('NUMBER', v))
        elif k == 'dimension':
            u = rnd.choice(UNITS)
            v = rnd.choice(NUMS)
            comps.append(Comp('PERCENTAGE' if u == '%' else 'DIMENSION', v + u))
        elif k == 'string':
            # (incl. characters that str.splitlines / str.strip treat as line ends or blanks and CSS does not)
            v = rnd.choice(['s', 'a b', 'x;y', 'q}', "it's", 'é', '/*c*/', 'x\u2028y', 'A\x85B', '1\x0b2', 'p\x1cq\u2029'])
            comps.append(Comp('STRING', v, '"%s"' % v))
        elif k == 'url':
            v = rnd.choice(['a.png', 'img/b c.gif', 'http://h/x?y=1&z', 'é.png', '\xa0x.png', 'y.gif\u3000', 'a\u2029b.png', 'c\x85.gif'])
            comps.append(Comp('URI', v, 'url("%s")' % v))
        elif k == 'hash':
            comps.append(Comp('COLOR_VALUE', rnd.choice(COLORS)))
        elif k == 'function':
            f = rnd.choice(FUNCS)
            args = [c for c in gen_value(rnd, depth + 2) if c.kind != 'SEP']
            inner = ', '.join(c.text for c in args)
            fc = Comp('FUNCTION', (f, tuple(c.key() for c in args)), '%s(%s)' % (f, inner))
            fc.args = args
            comps.append(fc)
        elif k == 'calc':
            a, b = rnd.choice(['1px', '2em', '50%']), rnd.choice(['3px', '1em', '10%'])
            op = rnd.choice(['+', '-', '*', '/'])
            if op in '*/':
                b = rnd.choice(['2', '3'])
            comps.append(Comp('CALC', (a, op, b), 'calc(%s %s %s)' % (a, op, b)))
        else:
            v = rnd.choice(['U+0-7F', 'U+400-4ff', 'u+26'])
            comps.append(Comp('UNICODE-RANGE', v.lower(), v))
        if i < n - 1 and rnd.random() < 0.25:
            comps.append(Comp('SEP', rnd.choice([',', '/'])))
    # no separator at the ends, none doubled
    out = []
    for c in comps:
        if c.kind == 'SEP' and (not out or out[-1].kind == 'SEP'):
            continue
        out.append(c)
    while out and out[-1].kind == 'SEP':
        out.pop()
    return out or [Comp('IDENT', 'auto')]


def gen_decls(rnd, lo=0, hi=4, names=None, distinct=False, atrules=True):
    """declarations (name, components, important); an entry whose name starts with '@' is an unknown at-rule inside the
    block (name, text after the keyword, block text or None): kept by the parser as an item of the block, no declaration"""
    out = []
    pool = list(names or NAMES)
    for _ in range(rnd.randint(lo, hi)):
        if distinct and not pool:
            break
        n = rnd.choice(pool)
        if distinct:
            pool.remove(n)
        out.append((n, gen_value(rnd), rnd.random() < 0.2))
    if atrules and out and rnd.random() < 0.12:
        at = (rnd.choice(['@foo', '@x-y']), rnd.choice(['bar', 'a 1 "s"']), rnd.choice([None, None, 'k: v']))
        out.insert(rnd.randint(0, len(out)), at)
    return out


def is_at(d):
    return d[0].startswith('@')


def gen_rule(rnd, depth=0, in_media=False):
    k = rnd.choice(['style', 'style', 'style', 'media', 'page', 'fontface', 'unknown', 'comment'] if depth < 2
                   else ['style', 'comment'])
    if k == 'style':
        return ('style', [gen_selector(rnd) for _ in range(rnd.randint(1, 3))], gen_decls(rnd, 1, 4))
    if k == 'media':
        mq = gen_mqs(rnd, 1, 2)
        return ('media', mq, [gen_rule(rnd, depth + 1, True) for _ in range(rnd.randint(1, 3))])
    if k == 'page':
        sel = rnd.choice(['', ':first', ':left', 'toc'])
        # margin boxes: some or all of them may hold nothing (they are then not written)
        mode = rnd.choice(['full', 'full', 'full', 'some-empty', 'all-empty'])
        margins = [(m, gen_decls(rnd, 0 if mode == 'all-empty' or (mode == 'some-empty' and rnd.random() < 0.5) else 1,
                                 0 if mode == 'all-empty' else 2, atrules=False))
                   for m in rnd.sample(['@top-left', '@bottom-center'], rnd.randint(0, 2))]
        if margins and mode != 'all-empty' and rnd.random() < 0.25:
            # the same box once more (the parser merges them: the merged block holds every declaration of both, in order,
            # also a name stated twice)
            margins.append((rnd.choice(margins)[0], gen_decls(rnd, 1, 3, ['content', 'width', 'color'], atrules=False)))
        return ('page', sel, gen_decls(rnd, 0 if margins and rnd.random() < 0.15 else 1, 3, ['margin', 'size', 'top'], atrules=False), margins)
    if k == 'fontface':
        if in_media:
            return gen_rule(rnd, depth, in_media)
        return ('fontface', gen_decls(rnd, 1, 3, ['font-family', 'src', 'font-weight']))
    if k == 'unknown':
        kw = rnd.choice(['@foo', '@x-y'])
        body = rnd.choice(['bar', 'a 1 "s"', 'q(1, 2)'])
        if rnd.random() < 0.5:
            return ('unknown', kw, body, None)
        return ('unknown', kw, body, rnd.choice(['a: b', 'x y z', 'k { l: m }']))
    return ('comment', rnd.choice(['c', ' note ', 'a*b', 'x/y']))


def gen_sheet(rnd):
    rules = []
    if rnd.random() < 0.3:
        rules.append(('charset', 'utf-8'))
    for _ in range(rnd.randint(0, 2)):
        rules.append(('import', rnd.choice(['a.css', 'sub/b.css', 'http://h/c.css']), gen_mqs(rnd, 0, 2),
                      rnd.random() < 0.5))
    if rnd.random() < 0.6:
        rules.append(('namespace', 'p', 'http://ns/p'))
        if rnd.random() < 0.3:
            rules.append(('namespace', '', 'http://ns/d'))
    for _ in range(rnd.randint(1, 5)):
        rules.append(gen_rule(rnd))
    if not any(r[0] == 'namespace' and r[1] == 'p' for r in rules):
        rules = [strip_ns(r) for r in rules]
    else:
        # a prefix is case-sensitive and is looked up as written
        pfx = rnd.choice(['p', 'p', 'SVG', 'xLink', 'P'])
        if pfx != 'p':
            rules = [rename_prefix(r, 'p', pfx) for r in rules]
    return rules


def rename_prefix(rule, old, new):
    def simple(s):
        if s[0] in ('type', 'univ', 'attr') and s[1] == old:
            return (s[0], new) + tuple(s[2:])
        if s[0] == 'not':
            return ('not', simple(s[1]))
        return s
    if rule[0] == 'namespace' and rule[1] == old:
        return ('namespace', new, rule[2])
    if rule[0] == 'style':
        return ('style', [[(c, [simple(x) for x in comp]) for c, comp in sel] for sel in rule[1]], rule[2])
    if rule[0] == 'media':
        return ('media', rule[1], [rename_prefix(r, old, new) for r in rule[2]])
    return rule


def strip_ns(rule):
    """without a declared prefix the selectors must not use one"""
    def simple(s):
        if s[0] in ('type', 'univ', 'attr') and s[1] == 'p':
            return (s[0], None) + tuple(s[2:])
        if s[0] == 'not':
            return ('not', simple(s[1]))
        return s
    if rule[0] == 'style':
        return ('style', [[(c, [simple(x) for x in comp]) for c, comp in sel] for sel in rule[1]], rule[2])
    if rule[0] == 'media':
        return ('media', rule[1], [strip_ns(r) for r in rule[2]])
    return rule



# ------------------------------------------------------------------ selectors (level 3), as ASTs

SEL_NAMES = ['a', 'b', 'div', 'x-y', 'h1', 'é', '_u', 'fade']
PSEUDO_CLASSES = ['hover', 'first-child', 'link', 'last-of-type', 'root', 'checked']
LEGACY_ELEMENTS = ['before', 'after', 'first-line', 'first-letter']
PSEUDO_ELEMENTS = ['before', 'selection', 'first-line', 'x-thing']
SEL_FUNCS = [('nth-child', ['2n+1', 'odd', '-n+3', '2', 'n']), ('lang', ['en', 'de-CH']), ('nth-of-type', ['even', '3n']),
             ('nth-last-child', ['2n+1'])]
ATTR_OPS = ['=', '~=', '|=', '^=', '$=', '*=']


def gen_simple(rnd, kinds):
    k = rnd.choice(kinds)
    ns = rnd.choice([None, None, None, 'p', '*', ''])
    if k == 'type':
        return ('type', ns, rnd.choice(SEL_NAMES))
    if k == 'univ':
        return ('univ', ns)
    if k == 'id':
        return ('id', rnd.choice(SEL_NAMES))
    if k == 'class':
        return ('class', rnd.choice(SEL_NAMES))
    if k == 'attr':
        if ns == '*':
            ns = None
        if rnd.random() < 0.4:
            return ('attr', ns, rnd.choice(SEL_NAMES), None, None)
        v = rnd.choice([('i', 'v'), ('i', 'x-1'), ('s', 's t'), ('s', 'q'), ('s', ']')])
        return ('attr', ns, rnd.choice(SEL_NAMES), rnd.choice(ATTR_OPS), v)
    if k == 'pc':
        return ('pc', rnd.choice(PSEUDO_CLASSES))
    if k == 'func':
        f, args = rnd.choice(SEL_FUNCS)
        return ('func', f, rnd.choice(args))
    if k == 'not':
        return ('not', gen_simple(rnd, ['type', 'univ', 'id', 'class', 'attr', 'pc', 'func']))
    raise AssertionError(k)


def gen_selector(rnd, maxc=3):
    sel = []
    for i in range(rnd.randint(1, maxc)):
        comp = []
        if rnd.random() < 0.7:
            comp.append(gen_simple(rnd, ['type', 'type', 'univ']))
        for _ in range(rnd.randint(0 if comp else 1, 3)):
            comp.append(gen_simple(rnd, ['id', 'class', 'class', 'attr', 'pc', 'func', 'not']))
        r = rnd.random()
        if r < 0.1:
            comp.append(('pe', rnd.choice(LEGACY_ELEMENTS), True))
        elif r < 0.25:
            comp.append(('pe', rnd.choice(PSEUDO_ELEMENTS), False))
        sel.append((rnd.choice([' ', '>', '+', '~']) if i else None, comp))
    return sel


def simple_spec(s):
    k = s[0]
    if k == 'type' or k == 'pe':
        return (0, 0, 1)
    if k == 'univ':
        return (0, 0, 0)
    if k == 'id':
        return (1, 0, 0)
    if k == 'not':
        return simple_spec(s[1])
    return (0, 1, 0)


def specificity(sel):
    tot = [0, 0, 0]
    for _, comp in sel:
        for s in comp:
            tot = [a + b for a, b in zip(tot, simple_spec(s))]
    return tuple(tot)


def render_simple(s, lay, sp):
    k = s[0]
    w = lay.ws

    def nsp(ns):
        return '' if ns is None else ns + '|'
    if k == 'type':
        return nsp(s[1]) + sp.ident(s[2])
    if k == 'univ':
        return nsp(s[1]) + '*'
    if k == 'id':
        return '#' + sp.ident(s[1])
    if k == 'class':
        return '.' + sp.ident(s[1])
    if k == 'attr':
        t = '[' + w() + nsp(s[1]) + sp.ident(s[2]) + w()
        if s[3]:
            v = sp.string(s[4][1]) if s[4][0] == 's' else sp.ident(s[4][1])
            t += s[3] + w() + v + w()
        return t + ']'
    if k == 'pc':
        return ':' + sp.keyword(s[1])
    if k == 'pe':
        return (':' if s[2] else '::') + sp.keyword(s[1])
    if k == 'func':
        return ':' + sp.keyword(s[1]) + '(' + w() + s[2] + w() + ')'
    if k == 'not':
        return ':' + sp.keyword('not') + '(' + w() + render_simple(s[1], lay, sp) + w() + ')'
    raise AssertionError(s)


def render_selector(sel, lay, sp):
    out = []
    for comb, comp in sel:
        if comb == ' ':
            out.append(lay.ws(True, 'desc'))
        elif comb:
            out.append(lay.ws() + comb + lay.ws())
        out.append(''.join(render_simple(s, lay, sp) for s in comp))
    return ''.join(out)


# ------------------------------------------------------------------ rendering

class Layout:
    """insignificant white space and comments"""

    def __init__(self, rnd=None, comments=True, dense=False, pinned=False):
        self.rnd, self.comments, self.dense, self.pinned = rnd, comments, dense, pinned

    def ws(self, must=False, ctx=None):
        """ctx 'selend': after a selector; 'desc': a descendant combinator.  There S COMMENT S and a comment after the
        white space at the end are the recorded findings C02-selector-*; they are probed separately (self.pinned)"""
        if self.rnd is None:
            return ' ' if must else ''
        if self.dense and not must:
            return ''
        r = self.rnd.random()
        pick = self.rnd.choice([' ', '  ', '\n', '\t', '\r\n', ' \n '])
        if self.comments and r < 0.15:
            if ctx == 'selend' and not self.pinned:
                return '/*L*/' + pick
            if ctx == 'desc' and not self.pinned:
                return self.rnd.choice([pick + '/*L*/', '/*L*/' + pick])
            # (white space on both sides of the comment also where none is needed: with parseComments=False the
            # tokenizer then delivers two S tokens in a row)
            return pick + '/*L*/' + (pick if must or self.rnd.random() < 0.5 else '')
        if must or r < 0.6:
            return pick
        return ''


def render_comp(c, lay, sp):
    """one component under a layout: white space and comments also inside functions and calc()"""
    w = lay.ws
    if c.kind == 'FUNCTION':
        name, args = c.value[0], c.args
        return sp.fname(name) + '(' + w() + (w() + ',' + w()).join(render_comp(a, lay, sp) for a in args) + w() + ')'
    if c.kind == 'CALC':
        a, op, b = c.value
        sep = w(True) if op in '+-' else w()
        return sp.fname('calc') + '(' + w() + sp.dim(a) + sep + op + sep + sp.dim(b) + w() + ')'
    if c.kind == 'COLOR_VALUE' and '(' in c.text:
        i = c.text.index('(')
        parts = c.text[i + 1:-1].split(', ')
        return sp.fname(c.text[:i]) + '(' + w() + (w() + ',' + w()).join(parts) + w() + ')'
    return sp.value(c)


def render_value(comps, lay, sp):
    out = []
    prev = None
    for c in comps:
        if c.kind == 'SEP':
            out.append(lay.ws() + c.text + lay.ws())
        else:
            if prev is not None and prev.kind != 'SEP':
                out.append(lay.ws(True))
            out.append(render_comp(c, lay, sp))
        prev = c
    return ''.join(out)


def render_decls(decls, lay, sp):
    parts = []
    for name, val, imp in decls:
        if name.startswith('@'):
            parts.append(name + ' ' + val + (' { ' + imp + ' }' if imp else ''))
            continue
        t = sp.name(name) + lay.ws() + ':' + lay.ws() + render_value(val, lay, sp)
        if imp:
            t += lay.ws() + '!' + lay.ws() + sp.keyword('important')
        parts.append(t)
    sep = lay.ws() + ';' + lay.ws()
    text = sep.join(parts)
    if parts and ((lay.rnd is not None and lay.rnd.random() < 0.5) or (decls[-1][0].startswith('@') and not decls[-1][2])):
        text += lay.ws() + ';'          # (an at-rule without a block needs its own ';')
    return text


def render_rule(rule, lay, sp):
    k = rule[0]
    w = lay.ws
    if k == 'charset':
        return '@charset "%s";' % rule[1]
    if k == 'import':
        href = sp.string(rule[1]) if not rule[3] else sp.url(rule[1])
        mq = (w(True) + (w() + ',' + w()).join(render_mq(q, lay, sp) for q in rule[2])) if rule[2] else ''
        return sp.atkw('@import') + w(True) + href + mq + w() + ';'
    if k == 'namespace':
        return sp.atkw('@namespace') + w(True) + (rule[1] + w(True) if rule[1] else '') + sp.string(rule[2]) + w() + ';'
    if k == 'style':
        sels = (w(ctx='selend') + ',' + w()).join(render_selector(sel, lay, sp) for sel in rule[1])
        return sels + w(ctx='selend') + '{' + w() + render_decls(rule[2], lay, sp) + w() + '}'
    if k == 'media':
        mq = (w() + ',' + w()).join(render_mq(q, lay, sp) for q in rule[1])
        body = w().join(render_rule(r, lay, sp) for r in rule[2])
        return sp.atkw('@media') + w(True) + mq + w() + '{' + w() + body + w() + '}'
    if k == 'page':
        inner = render_decls(rule[2], lay, sp)
        for m, d in rule[3]:
            inner += (w() + ';' + w() if inner else '') + sp.atkw(m) + w() + '{' + w() + render_decls(d, lay, sp) + w() + '}'
        return sp.atkw('@page') + (w(True) + rule[1] if rule[1] else '') + w() + '{' + w() + inner + w() + '}'
    if k == 'fontface':
        return sp.atkw('@font-face') + w() + '{' + w() + render_decls(rule[1], lay, sp) + w() + '}'
    if k == 'unknown':
        if rule[3] is None:
            return rule[1] + ' ' + rule[2] + ';'
        return rule[1] + ' ' + rule[2] + ' { ' + rule[3] + ' }'
    if k == 'comment':
        return '/*' + rule[1] + '*/'
    raise AssertionError(rule)


def render_sheet(rules, lay, sp):
    return lay.ws().join(render_rule(r, lay, sp) for r in rules)


class AtCase:
    """the canonical spelling but for the letter case of at-keywords (incl. the margin boxes of @page): the grammar has
    them case-insensitive"""

    def __init__(self, rnd):
        self.rnd = rnd

    def __getattr__(self, name):
        return getattr(_PLAIN, name)

    def atkw(self, k):
        r = self.rnd.random()
        return k.upper() if r < 0.3 else ''.join(c.upper() if self.rnd.random() < 0.4 else c for c in k) if r < 0.7 else k


class Plain:
    """the canonical spelling"""

    def name(self, n):
        return n

    def keyword(self, k):
        return k

    def ident(self, k):
        return k

    def atkw(self, k):
        return k

    def string(self, v):
        return '"%s"' % v

    def url(self, v):
        return 'url("%s")' % v

    def value(self, c):
        return c.text

    def fname(self, n):
        return n

    def dim(self, t):
        return t

    def mediaword(self, t):
        return t


class Respell(Plain):
    """spellings CSS defines as equivalent: letter case, backslash escapes of name characters (hex with optional
    terminating white space, or literal), quote style, bare URLs"""

    def __init__(self, rnd, pinned=False):
        self.rnd, self.pinned = rnd, pinned

    def _case(self, s):
        return ''.join(ch.upper() if self.rnd.random() < 0.4 else ch for ch in s)

    def _esc(self, s, p=0.25, literal=True):
        out = []
        for i, ch in enumerate(s):
            if ch.isalpha() and self.rnd.random() < p:
                r = self.rnd.random()
                nxt = s[i + 1] if i + 1 < len(s) else ''
                if r < 0.6:
                    h = '%x' % ord(ch)
                    if self.rnd.random() < 0.3:
                        h = h.upper()
                    h = '0' * self.rnd.randint(0, 6 - len(h)) + h
                    # the terminator is needed if a hex digit or a space would follow
                    # one white space after the escape belongs to it (also after six digits): at the end of the name it
                    # is always written, so that white space which follows stays white space
                    term = self.rnd.choice([' ', '\t', '\n']) if (nxt == '' or (len(h) < 6 and nxt in '0123456789abcdefABCDEF ')) \
                        else self.rnd.choice(['', ' '])
                    out.append('\\' + h + term)
                elif ch.lower() not in 'abcdef' and literal:
                    out.append('\\' + ch)
                else:
                    out.append(ch)
            else:
                out.append(ch)
        return ''.join(out)

    def name(self, n):
        return self._esc(self._case(n))

    def keyword(self, k):
        return self._esc(self._case(k))

    def fname(self, n):
        return self._esc(self._case(n))

    def mediaword(self, t):
        return self._esc(self._case(t), literal=False)

    def dim(self, t):
        i = len(t.rstrip('abcdefghijklmnopqrstuvwxyz%'))
        unit = t[i:]
        return t[:i] + (self._esc(self._case(unit)) if unit != '%' else unit)

    def ident(self, k):
        """case is significant in element, class and id names: escapes only (literal escapes there are the recorded
        finding C10-selector-literal-escape, probed separately)"""
        return self._esc(k, literal=self.pinned)

    def atkw(self, k):
        return '@' + self._esc(self._case(k[1:]))

    def string(self, v):
        q = "'" if '"' not in v and "'" not in v and self.rnd.random() < 0.5 else '"'
        return q + v + q

    def url(self, v):
        u = self._esc(self._case('url'))
        if not any(ch in v for ch in ' "\'(),;') and self.rnd.random() < 0.5:
            return '%s(%s)' % (u, v)
        return '%s(%s)' % (u, self.string(v))

    def value(self, c):
        k = c.kind
        if k == 'STRING':
            return self.string(c.value)
        if k == 'URI':
            return self.url(c.value)
        if k == 'IDENT':
            # (a literal escape in an identifier of a value is the recorded finding C10-value-literal-escape)
            return self._esc(c.text, literal=self.pinned)
        if k in ('DIMENSION', 'PERCENTAGE'):
            return self.dim(c.text)
        if k == 'COLOR_VALUE':
            return c.text if c.text.startswith('#') else self._esc(c.text, literal=self.pinned)
        return c.text


# ------------------------------------------------------------------ the model read off a parsed sheet

def comp_model(v):
    """type and value of one component; comments inside functions are no part of it"""
    t = v.type
    if t == 'URI':
        return ('URI', v.uri)
    if t == 'STRING':
        return ('STRING', v.value)
    if t in ('FUNCTION', 'CALC', 'COLOR_VALUE', 'VARIABLE') and len(v.seq) and v.seq[0].type == 'FUNCTION':
        # structurally: the name, then the arguments and operators (white space and comments are layout)
        items = []
        for i in v.seq:
            val = i.value
            if i.type == 'S' or val.__class__.__name__ == 'CSSComment':
                continue
            items.append(comp_model(val) if hasattr(val, 'cssText') and hasattr(val, 'type') else val)
        return (t, tuple(items))
    if t in ('NUMBER', 'DIMENSION', 'PERCENTAGE'):
        # numbers are compared by value to 6 decimal places (the documented limit); a zero length may lose its unit
        num = round(v.value, 6)
        dim = v.dimension
        if num == 0 and dim in LENGTHS:
            return ('NUMBER', '0.0', None)
        if isinstance(v.value, int) and abs(v.value) >= 2 ** 53:
            return (t, str(v.value), dim)       # exact: a double cannot hold it
        return (t, '0.0' if num == 0 else repr(num + 0.0), dim)
    return (t, v.cssText)


def decl_model(style):
    out = []
    for p in style.getProperties(all=True):
        out.append((p.name, [comp_model(v) for v in p.propertyValue], p.priority))
    return out


def selector_model(sel):
    items = []
    for i in sel.seq:
        v = i.value
        if isinstance(v, tuple):
            v = tuple(v)
        elif hasattr(v, 'cssText'):
            continue                      # comments inside selectors are layout
        if i.type in ('S',):
            continue
        items.append((i.type, v))
    return (tuple(items), tuple(sel.specificity))


def media_model(ml):
    def mq(q):
        out = []
        for j in q.seq:
            if j.value.__class__.__name__ == 'CSSComment':
                continue
            v = getattr(j.value, 'cssText', j.value)
            out.append(v.lower() if isinstance(v, str) else v)
        return tuple(out)
    return [mq(i.value) for i in ml.seq if i.type == 'MediaQuery']


def strip_comments(t):
    import re
    return ' '.join(re.sub(r'/\*.*?\*/', ' ', t, flags=re.S).split())


def rule_model(r, comments=True):
    t = r.type
    if t == r.STYLE_RULE:
        return ('style', [selector_model(s) for s in r.selectorList], decl_model(r.style))
    if t == r.MEDIA_RULE:
        return ('media', media_model(r.media),
                [m for m in (rule_model(c, comments) for c in r.cssRules) if m is not None])
    if t == r.PAGE_RULE:
        return ('page', strip_comments(r.selectorText), decl_model(r.style), [(m.margin, decl_model(m.style)) for m in r.cssRules])
    if t == r.FONT_FACE_RULE:
        return ('fontface', decl_model(r.style))
    if t == r.IMPORT_RULE:
        return ('import', r.href, media_model(r.media))
    if t == r.NAMESPACE_RULE:
        return ('namespace', r.prefix, r.namespaceURI)
    if t == r.CHARSET_RULE:
        return ('charset', r.encoding)
    if t == r.COMMENT:
        return ('comment', r.cssText) if comments else None
    if t == r.UNKNOWN_RULE:
        return ('unknown', r.atkeyword, [getattr(i.value, 'cssText', i.value) for i in r.seq if i.type != 'S'])
    return ('other', t)


def prune(models):
    """the model without what holds nothing (empty blocks are not written unless keepEmptyRules is set)"""
    out = []
    for m in models:
        k = m[0]
        if k == 'style' and not m[2]:
            continue
        if k == 'fontface' and not m[1]:
            continue
        if k == 'media':
            kids = prune(m[2])
            if not kids:
                continue
            m = ('media', m[1], kids)
        if k == 'page':
            margins = [x for x in m[3] if x[1]]
            if not m[2] and not margins:
                continue
            m = ('page', m[1], m[2], margins)
        out.append(m)
    return out


def sheet_model(sheet, comments=True):
    return [m for m in (rule_model(r, comments) for r in sheet.cssRules) if m is not None]


# ------------------------------------------------------------------ the model expected from the AST

def expected_kind(c):
    if c.kind == 'DIMENSION':
        i = len(c.text.rstrip('abcdefghijklmnopqrstuvwxyz'))
        if round(float(c.text[:i]), 6) == 0 and c.text[i:] in LENGTHS:
            return 'NUMBER'
    return c.kind


def expected_decls(decls):
    return [(n, [expected_kind(c) for c in v if c.kind != 'SEP'], 'important' if imp else '') for n, v, imp in decls
            if not n.startswith('@')]


def merged_margins(margins):
    """a margin box stated twice is one box holding the declarations of both, in order"""
    out = []
    for m, d in margins:
        for i, (m2, d2) in enumerate(out):
            if m2 == m:
                out[i] = (m, d2 + d)
                break
        else:
            out.append((m, list(d)))
    return out


ANYNS = -1          # css_parser._ANYNS


def expected_pairs(sel, nsmap):
    """the (namespace URI, local name) pairs a selector binds, by construction: an element name without prefix is in the
    default namespace if one is declared, `|e` in none, `*|e` in any, `p|e` in the URI p denotes; an attribute without
    prefix is in no namespace; the same inside :not()"""
    out = []

    def simple(x):
        k = x[0]
        if k in ('type', 'univ'):
            ns = x[1]
            uri = nsmap.get('', None) if ns is None else ANYNS if ns == '*' else '' if ns == '' else nsmap[ns]
            out.append((uri, x[2] if k == 'type' else '*'))
        elif k == 'attr':
            ns = x[1]
            if ns not in (None, ''):          # (an attribute in no namespace is stored as a plain name)
                out.append((nsmap[ns], x[2]))
        elif k == 'not':
            simple(x[1])
    for _, comp in sel:
        for x in comp:
            simple(x)
    return out


def expected_shape(rules, nsmap=None):
    """what can be told by construction: kinds in order, selector count, specificity and (URI, name) pairs, names /
    component kinds / priorities of declarations, media queries, hrefs, prefixes and URIs"""
    if nsmap is None:
        nsmap = {r[1]: r[2] for r in rules if r[0] == 'namespace'}
    out = []
    for r in rules:
        k = r[0]
        if k == 'style':
            out.append(('style', [((0,) + specificity(sel), expected_pairs(sel, nsmap)) for sel in r[1]], expected_decls(r[2])))
        elif k == 'media':
            out.append(('media', list(r[1]), expected_shape(r[2], nsmap)))
        elif k == 'page':
            out.append(('page', r[1], expected_decls(r[2]), [(m, expected_decls(d)) for m, d in merged_margins(r[3])]))
        elif k == 'fontface':
            out.append(('fontface', expected_decls(r[1])))
        elif k == 'import':
            out.append(('import', r[1], list(r[2]) or [('all',)]))
        elif k in ('namespace', 'charset', 'comment'):
            out.append(tuple(r) if k != 'comment' else ('comment', '/*%s*/' % r[1]))
        elif k == 'unknown':
            out.append(('unknown', r[1]))
    return out


def shape_of_model(model):
    out = []
    for m in model:
        k = m[0]

        def ds(d):
            return [(n, [c[0] if c[0] not in ('FUNCTION', 'CALC') and not isinstance(c[0], int) else c[0] for c in v
                         if c[0] not in ('operator', 'CHAR')], p) for n, v, p in d]
        if k == 'style':
            out.append(('style', [(s[1], [tuple(v) for t, v in s[0] if isinstance(v, tuple)]) for s in m[1]], ds(m[2])))
        elif k == 'media':
            out.append(('media', list(m[1]), shape_of_model(m[2])))
        elif k == 'import':
            out.append(('import', m[1], list(m[2])))
        elif k == 'page':
            out.append(('page', m[1], ds(m[2]), [(a, ds(b)) for a, b in m[3]]))
        elif k == 'fontface':
            out.append(('fontface', ds(m[1])))
        elif k == 'unknown':
            out.append(('unknown', m[1]))
        else:
            out.append(tuple(m))
    return out


_PLAIN = Plain()
