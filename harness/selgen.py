"""Selector derivations (level-3 grammar) with the specificity known by construction.
Used by C16 (specificity), C15 (namespaces) and the pipeline properties."""

NAMES = ['a', 'b', 'div', 'x-y', 'h1', 'é', '_u']
PSEUDO_CLASSES = ['hover', 'first-child', 'link', 'last-of-type', 'root', 'checked']
LEGACY_ELEMENTS = ['before', 'after', 'first-line', 'first-letter']
PSEUDO_ELEMENTS = ['before', 'selection', 'first-line', 'x-thing']
FUNCS = [('nth-child', ['2n+1', 'odd', '-n + 3', '2', 'n']), ('lang', ['en', 'de-CH']), ('nth-of-type', ['even', '3n']),
         ('nth-last-child', ['2n + 1'])]
OPS = ['=', '~=', '|=', '^=', '$=', '*=']


class Gen:
    def __init__(self, rnd, prefixes=('p', 'q'), layout=True, allow_ns=True, avoid_known=True):
        self.rnd = rnd
        self.prefixes = list(prefixes)
        self.layout = layout
        self.allow_ns = allow_ns
        self.avoid_known = avoid_known

    def ws(self, p=0.3):
        if self.layout and self.rnd.random() < p:
            return self.rnd.choice([' ', '  ', '\n', '\t'])
        return ''

    def nspart(self, attr=False):
        """returns (text, kind) kind in none/default/prefix:<p>/any/empty"""
        r = self.rnd.random()
        if not self.allow_ns or r < 0.6:
            return '', 'none'
        if r < 0.8 and self.prefixes:
            p = self.rnd.choice(self.prefixes)
            return p + '|', 'prefix:' + p
        if r < 0.9:
            return '*|', 'any'
        return '|', 'empty'

    def simple(self, kinds):
        """one simple selector → (text, (b, c, d), pairs) ; pairs = list of (nskind, name, 'type'|'attr'|'universal')"""
        rnd = self.rnd
        k = rnd.choice(kinds)
        if k == 'type':
            ns, nk = self.nspart()
            n = rnd.choice(NAMES)
            return ns + n, (0, 0, 1), [(nk, n, 'type')]
        if k == 'universal':
            ns, nk = self.nspart()
            return ns + '*', (0, 0, 0), [(nk, '*', 'universal')]
        if k == 'id':
            return '#' + rnd.choice(NAMES), (1, 0, 0), []
        if k == 'class':
            return '.' + rnd.choice(NAMES), (0, 1, 0), []
        if k == 'attrib':
            ns, nk = self.nspart(attr=True)
            if nk == 'any':
                ns, nk = '', 'none'
            n = rnd.choice(NAMES)
            t = '[' + self.ws() + ns + n + self.ws()
            if rnd.random() < 0.6:
                v = rnd.choice(['v', 'x-1', '"s t"', "'q'", '"]"'])
                t += rnd.choice(OPS) + self.ws() + v + self.ws()
            return t + ']', (0, 1, 0), [(nk if nk != 'none' else 'attr-none', n, 'attr')]
        if k == 'pseudo':
            r = rnd.random()
            if r < 0.5:
                return ':' + rnd.choice(PSEUDO_CLASSES), (0, 1, 0), []
            if r < 0.65:
                return ':' + rnd.choice(LEGACY_ELEMENTS), (0, 0, 1), []
            f, args = rnd.choice(FUNCS)
            return ':%s(%s%s%s)' % (f, self.ws(), rnd.choice(args), self.ws()), (0, 1, 0), []
        if k == 'where':
            return ':where(%s)' % rnd.choice(['a', 'x']), (0, 0, 0), []
        if k == 'pseudo-func':
            f, args = rnd.choice(FUNCS)
            return ':%s(%s%s%s)' % (f, self.ws(), rnd.choice(args), self.ws()), (0, 1, 0), []
        if k == 'pseudo-simple':
            return ':' + rnd.choice(PSEUDO_CLASSES), (0, 1, 0), []
        if k == 'not':
            inner_kinds = ['type', 'universal', 'id', 'class', 'attrib', 'pseudo-simple', 'pseudo-func']
            t, spec, pairs = self.simple(inner_kinds)
            head = ':not(' if self.avoid_known or self.rnd.random() < 0.8 else self.rnd.choice([':NOT(', ':Not('])
            return '%s%s%s%s)' % (head, self.ws(), t, self.ws()), spec, pairs
        raise AssertionError(k)

    def compound(self):
        rnd = self.rnd
        parts, spec, pairs = [], [0, 0, 0], []
        if rnd.random() < 0.7:
            t, s, p = self.simple(['type', 'type', 'universal'])
            parts.append(t)
            spec = [a + b for a, b in zip(spec, s)]
            pairs += p
        n = rnd.randint(0 if parts else 1, 3)
        for _ in range(n):
            t, s, p = self.simple(['id', 'class', 'class', 'attrib', 'pseudo', 'not', 'where'])
            parts.append(t)
            spec = [a + b for a, b in zip(spec, s)]
            pairs += p
            if t.lstrip(':') in LEGACY_ELEMENTS and t.startswith(':') and not t.startswith('::'):
                break       # a pseudo-element ends the compound
        last_is_element = bool(parts) and parts[-1].startswith(':') and parts[-1][1:] in LEGACY_ELEMENTS
        if rnd.random() < 0.2 and not last_is_element:
            if rnd.random() < 0.3:
                # functional pseudo-element (derivable from `pseudo: ':' ':'? functional_pseudo`)
                parts.append('::%s(%s%s%s)' % (rnd.choice(['part', 'slotted', 'cue', 'x-fn']), self.ws(),
                                               rnd.choice(['x', 'span', '1', '"s"', '2n+1']), self.ws()))
            else:
                parts.append('::' + rnd.choice(PSEUDO_ELEMENTS))
            spec[2] += 1
            last_is_element = True
        return ''.join(parts), spec, pairs, last_is_element

    def selector(self, maxcompounds=3):
        rnd = self.rnd
        text, spec, pairs = '', [0, 0, 0], []
        n = rnd.randint(1, maxcompounds)
        for i in range(n):
            t, s, p, ends = self.compound()
            if i:
                comb = rnd.choice([' ', '>', '+', '~'])
                if comb == ' ':
                    text += rnd.choice([' ', '  ', '\n'])
                else:
                    text += self.ws(0.5) + comb + self.ws(0.5)
                if self.layout and rnd.random() < 0.1:
                    text += '/*c*/'
            text += t
            spec = [a + b for a, b in zip(spec, s)]
            pairs += p
        return text, tuple(spec), pairs
