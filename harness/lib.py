"""Shared machinery for the checks: driver I/O, Lean build + audit, evidence, verdicts."""
import fcntl
import json
import os
import re
import subprocess
import sys
import time

VERIF = os.path.dirname(os.path.dirname(os.path.abspath(__file__)))
REPO = os.environ.get('VERIF_REPO', '/repo')
LEAN = os.path.join(VERIF, 'lean')
DRIVER = os.path.join(LEAN, '.lake', 'build', 'bin', 'driver')
WORK = os.path.join(VERIF, 'work')
PY = '/venv/bin/python'
NPROC = min(16, os.cpu_count() or 1)

ALLOWED_AXIOMS = {'propext', 'Classical.choice', 'Quot.sound'}
FORBIDDEN = re.compile(r'\bsorry\b|\badmit\b|^axiom |native_decide|bv_decide|implemented_by|unsafe |maxHeartbeats 0')


def use_repo():
    src = os.path.join(REPO, 'src')
    if src not in sys.path:
        sys.path.insert(0, src)


# ------------------------------------------------------------------ text encoding

def enc(s):
    """text → dotted hex code points"""
    if not s:
        return '-'
    return '.'.join('%x' % ord(c) for c in s)


def dec(h):
    if h == '-':
        return ''
    return ''.join(chr(int(x, 16)) for x in h.split('.'))


def encb(b):
    if not b:
        return '-'
    return '.'.join('%x' % c for c in b)


def short(x, n=60):
    """repr of a long text / byte string with the middle elided (for messages and finding keys)"""
    r = repr(x)
    if len(r) <= 2 * n + 20:
        return r
    return '%s...<%d>...%s' % (r[:n], len(x), r[-n:])


# ------------------------------------------------------------------ driver

def run_driver(lines, timeout=3600):
    """feed op lines to the model driver, return the list of answer lines"""
    if not lines:
        return []
    data = ('\n'.join(lines) + '\n').encode('ascii')
    p = subprocess.run([DRIVER], input=data, stdout=subprocess.PIPE, stderr=subprocess.PIPE, timeout=timeout)
    if p.returncode != 0:
        raise InfraError('driver exited %d: %s' % (p.returncode, p.stderr.decode()[-400:]))
    out = p.stdout.decode('ascii').split('\n')
    if out and out[-1] == '':
        out.pop()
    if len(out) != len(lines):
        raise InfraError('driver answered %d lines for %d ops' % (len(out), len(lines)))
    return out


class InfraError(Exception):
    pass


# ------------------------------------------------------------------ lean build / audit

class BuildResult:
    def __init__(self):
        self.ok = True
        self.log = ''
        self.failed_decls = []      # names of theorems / files that no longer check
        self.gen_status = ''
        self.axioms = {}            # theorem → set of axioms
        self.obligations = 0
        self.discharged = 0
        self.forbidden_hits = []
        self.seconds = 0.0


def _lock():
    os.makedirs(WORK, exist_ok=True)
    f = open(os.path.join(WORK, 'lake.lock'), 'w')
    fcntl.flock(f, fcntl.LOCK_EX)
    return f


def regenerate():
    """run the translator; returns (ok, message)"""
    p = subprocess.run([PY, os.path.join(VERIF, 'harness', 'gen_tables.py')], stdout=subprocess.PIPE,
                       stderr=subprocess.STDOUT, env=dict(os.environ, VERIF_REPO=REPO))
    msg = '\n'.join(l for l in p.stdout.decode(errors='replace').splitlines() if 'conda' not in l)
    return p.returncode == 0, msg


def grep_forbidden():
    hits = []
    for root, _, files in os.walk(os.path.join(LEAN, 'CssVerif')):
        for fn in files:
            if not fn.endswith('.lean'):
                continue
            path = os.path.join(root, fn)
            in_block = 0
            for i, line in enumerate(open(path, encoding='utf-8'), 1):
                code = line
                # strip block and line comments (good enough: no nested block comments on one line)
                if in_block:
                    if '-/' in code:
                        code = code.split('-/', 1)[1]
                        in_block = 0
                    else:
                        continue
                if '/-' in code:
                    before, rest = code.split('/-', 1)
                    if '-/' in rest:
                        code = before + rest.split('-/', 1)[1]
                    else:
                        code = before
                        in_block = 1
                code = code.split('--', 1)[0]
                if FORBIDDEN.search(code):
                    hits.append('%s:%d: %s' % (os.path.relpath(path, LEAN), i, line.strip()))
    return hits


def build_and_audit(prop, extra_targets=()):
    """regenerate tables, build Props.<prop> + driver, audit axioms.  Never raises on a
    failed obligation: the caller decides (search for a failing input)."""
    r = BuildResult()
    t0 = time.time()
    lock = _lock()
    try:
        ok, msg = regenerate()
        r.gen_status = msg
        if not ok:
            r.ok = False
            r.failed_decls.append('translator: ' + msg.strip().splitlines()[-1] if msg.strip() else 'translator failed')
        targets = ['CssVerif.Props.%s' % prop, 'driver'] + list(extra_targets)
        p = subprocess.run(['lake', 'build'] + targets, cwd=LEAN, stdout=subprocess.PIPE, stderr=subprocess.STDOUT)
        r.log = p.stdout.decode(errors='replace')
        if p.returncode != 0:
            r.ok = False
            for m in re.finditer(r'error: (\S+\.lean):(\d+):(\d+): (.*)', r.log):
                r.failed_decls.append('%s:%s: %s' % (m.group(1), m.group(2), m.group(4)[:160]))
            if not r.failed_decls:
                r.failed_decls.append('lake build failed: ' + r.log[-300:])
        r.forbidden_hits = grep_forbidden()
        if r.forbidden_hits:
            r.ok = False
            r.failed_decls.extend('forbidden: ' + h for h in r.forbidden_hits)
        # axiom audit
        audit = os.path.join(LEAN, 'CssVerif', 'Audit', '%s.lean' % prop)
        names = []
        if os.path.exists(audit):
            names = re.findall(r'^#print axioms\s+(\S+)', open(audit).read(), re.M)
        r.obligations = len(names)
        if p.returncode == 0 and names:
            a = subprocess.run(['lake', 'env', 'lean', audit], cwd=LEAN, stdout=subprocess.PIPE, stderr=subprocess.STDOUT)
            out = a.stdout.decode(errors='replace')
            # "'X' depends on axioms: [a, b]"  or  "'X' does not depend on any axioms"
            for m in re.finditer(r"'([^']+)' depends on axioms: \[([^\]]*)\]", out, re.S):
                r.axioms[m.group(1)] = set(x.strip() for x in m.group(2).replace('\n', ' ').split(',') if x.strip())
            for m in re.finditer(r"'([^']+)' does not depend on any axioms", out):
                r.axioms[m.group(1)] = set()
            for n in names:
                key = n if n in r.axioms else next((k for k in r.axioms if k.endswith('.' + n) or n.endswith('.' + k)), None)
                if key is None:
                    r.ok = False
                    r.failed_decls.append('audit: no axiom report for %s' % n)
                elif not r.axioms[key] <= ALLOWED_AXIOMS:
                    r.ok = False
                    r.failed_decls.append('audit: %s uses %s' % (n, sorted(r.axioms[key] - ALLOWED_AXIOMS)))
                else:
                    r.discharged += 1
            if a.returncode != 0:
                r.ok = False
                r.failed_decls.append('audit failed: ' + out[-300:])
    finally:
        lock.close()
    r.seconds = time.time() - t0
    return r


def leanchecker(mods):
    p = subprocess.run(['lake', 'env', 'leanchecker'] + list(mods), cwd=LEAN, stdout=subprocess.PIPE, stderr=subprocess.STDOUT)
    return p.returncode == 0, p.stdout.decode(errors='replace')[-500:]


# ------------------------------------------------------------------ shrinking

def shrink_seq(seq, fails, budget=400):
    """delta-debug a sequence (string, tuple or list): smallest subsequence on which fails(x) holds"""
    kind = type(seq)
    cur = list(seq)

    def mk(xs):
        return ''.join(xs) if kind is str else kind(xs)
    n = 2
    calls = 0
    while len(cur) >= 2 and calls < budget:
        chunk = max(1, len(cur) // n)
        reduced = False
        for i in range(0, len(cur), chunk):
            cand = cur[:i] + cur[i + chunk:]
            calls += 1
            try:
                bad = bool(cand) and fails(mk(cand))
            except Exception:
                bad = False
            if bad:
                cur = cand
                n = max(n - 1, 2)
                reduced = True
                break
        if not reduced:
            if chunk == 1:
                break
            n = min(n * 2, len(cur))
    return mk(cur)


# ------------------------------------------------------------------ known findings

def load_known():
    path = os.path.join(VERIF, 'known_findings.json')
    try:
        return json.load(open(path))
    except OSError:
        return {'findings': []}


class Findings:
    """collects failing cases of one property; separates known from new"""

    def __init__(self, prop):
        self.prop = prop
        self.known = [f for f in load_known().get('findings', []) if f.get('property') == prop and f.get('status') == 'open']
        self.new = []
        self.known_hit = {}

    def match(self, kind, key):
        for f in self.known:
            if f.get('kind') == kind and f.get('key') == key:
                return f
        return None

    def add(self, kind, key, detail):
        """kind: the oracle / correspondence op; key: the specific failing input (canonical string)"""
        f = self.match(kind, key)
        if f is not None:
            self.known_hit[f['id']] = f
        else:
            if len(self.new) < 50 and not any(n['kind'] == kind and n['key'] == key for n in self.new):
                self.new.append({'kind': kind, 'key': key, 'detail': detail})

    def probe_known(self, fn):
        """re-run every listed finding through fn(finding) → bool (still fails?)"""
        for f in self.known:
            try:
                if fn(f):
                    self.known_hit[f['id']] = f
            except Exception:
                pass


# ------------------------------------------------------------------ verdict / evidence

def write_json(path, obj):
    os.makedirs(os.path.dirname(path), exist_ok=True)
    with open(path, 'w') as f:
        json.dump(obj, f, indent=1, sort_keys=True, default=str)
        f.write('\n')


def finish(prop, tier, seed, t0, build, findings, coverage, assumptions, broken=()):
    """print KNOWN-FINDING / VIOLATION lines, write evidence, return exit code.

    `broken`: names of correspondence ops that no longer agree (with first diverging case)."""
    violations = 0
    for f in findings.known_hit.values():
        print('KNOWN-FINDING: property=%s %s' % (prop, f.get('what', f['id'])))
    replays = os.path.join(VERIF, 'replays')
    stale = os.path.join(replays, '%s-%s-%d.json' % (prop, tier, seed))
    if os.path.exists(stale):
        os.remove(stale)
    if findings.new:
        violations = len(findings.new)
        path = os.path.join(replays, '%s-%s-%d.json' % (prop, tier, seed))
        write_json(path, {'property': prop, 'failing': findings.new, 'seed': seed, 'tier': tier,
                          'broken_obligations': build.failed_decls if build else [],
                          'broken_correspondence': list(broken)})
        print('VIOLATION property=%s replay=%s' % (prop, os.path.relpath(path, VERIF)))
    elif (build is not None and not build.ok) or broken:
        violations = 1
        path = os.path.join(replays, '%s-%s-%d.json' % (prop, tier, seed))
        write_json(path, {'property': prop, 'failing': [], 'seed': seed, 'tier': tier,
                          'no_longer_checks': (build.failed_decls if build else []) + list(broken),
                          'note': 'a proof obligation or the model/implementation correspondence is broken and the '
                                  'search found no concrete failing input'})
        print('VIOLATION property=%s replay=%s no-failing-input-found' % (prop, os.path.relpath(path, VERIF)))
    cov = dict(coverage)
    if build is not None:
        cov.setdefault('obligations', build.obligations)
        cov.setdefault('discharged', build.discharged)
        cov.setdefault('checker_cmd', 'cd lean && lake build CssVerif.Props.%s && lake env lean CssVerif/Audit/%s.lean' % (prop, prop))
        cov.setdefault('axioms', {k: sorted(v) for k, v in build.axioms.items()})
        cov.setdefault('translator', build.gen_status.strip()[-200:])
        cov.setdefault('lean_seconds', round(build.seconds, 1))
    cov.setdefault('trusted_base', [
        'Lean 4.33.0 kernel; axioms limited to propext, Classical.choice, Quot.sound (audited by #print axioms each run)',
        'harness/gen_tables.py (translator) and CPython re._parser as the meaning of the regexes',
        'the correspondence harness (this run) tying the hand-written model to /repo',
    ])
    cov['known_findings_reproduced'] = sorted(findings.known_hit)
    ev = {'property_id': prop, 'tier': tier, 'seed': seed, 'level': 'proof', 'coverage': cov,
          'assumptions': list(assumptions), 'wall_s': round(time.time() - t0, 2), 'violations': violations}
    write_json(os.path.join(VERIF, 'evidence', '%s.json' % prop), ev)
    return 1 if violations else 0


# ------------------------------------------------------------------ how much of the modelled code the correspondence inputs execute

def _code_objects(obj):
    """the code objects of a function / method / property / class (with the closures defined inside)"""
    import types
    out = []

    def rec(co):
        out.append(co)
        for k in co.co_consts:
            if isinstance(k, types.CodeType):
                rec(k)
    if isinstance(obj, property):
        for f in (obj.fget, obj.fset, obj.fdel):
            if f is not None:
                out.extend(_code_objects(f))
        return out
    f = getattr(obj, '__func__', obj)
    f = getattr(f, '__wrapped__', f)
    co = getattr(f, '__code__', None)
    if co is not None:
        rec(co)
    return out


def modelled_code_coverage(targets, thunks, limit=800):
    """Run the thunks (calls into the real code) under a line tracer restricted to the target functions and report,
    per target, how many of its executable lines ran and which did not.  targets: [(module name, dotted attribute)].
    A measurement of the reach of the correspondence inputs over the code the model transcribes - not a verdict."""
    import importlib
    codes = {}
    lines = {}
    for mod, attr in targets:
        try:
            obj = importlib.import_module(mod)
            for part in attr.split('.'):
                obj = obj.__dict__[part] if isinstance(obj, type) and part in obj.__dict__ else getattr(obj, part)
        except Exception as e:
            lines['%s.%s' % (mod, attr)] = {'error': 'not found: %s' % e}
            continue
        name = '%s.%s' % (mod.split('.', 1)[-1], attr)
        want = set()
        for co in _code_objects(obj):
            codes[co] = name
            first = co.co_firstlineno
            for _, _, ln in co.co_lines():
                if ln is not None and ln != first:
                    want.add(ln)
        lines[name] = {'want': want, 'hit': set()}

    def local(frame, event, arg):
        if event == 'line':
            lines[codes[frame.f_code]]['hit'].add(frame.f_lineno)
        return local

    def tracer(frame, event, arg):
        return local if frame.f_code in codes else None
    old = sys.gettrace()
    sys.settrace(tracer)
    try:
        for t in list(thunks)[:limit]:
            try:
                t()
            except Exception:
                pass
    finally:
        sys.settrace(old)
    out = {}
    for name, d in lines.items():
        if 'error' in d:
            out[name] = d
            continue
        hit = d['hit'] & d['want']
        miss = sorted(d['want'] - hit)
        out[name] = {'executable_lines': len(d['want']), 'executed': len(hit), 'not_executed': miss[:25]}
    return out


# ------------------------------------------------------------------ watchdog pool (for code that cannot be interrupted)

def _wd_worker(fn, conn):
    while True:
        try:
            item = conn.recv()
        except EOFError:
            return
        if item is None:
            return
        i, case = item
        try:
            r = fn(case)
        except Exception:
            import traceback
            r = 'harness raised: ' + traceback.format_exc()[-300:]
        conn.send((i, r))


def run_with_watchdog(fn, cases, limit_s, procs=None):
    """fn(case) -> result, in worker processes; a case that runs longer than limit_s wall seconds gets the result
    ('TIMEOUT', limit_s) and its worker is killed (regular-expression matching ignores signals).  Every worker has
    its own pipe: killing one cannot leave a lock of a shared queue held."""
    import multiprocessing as mp
    from multiprocessing.connection import wait
    ctx = mp.get_context('fork')
    procs = min(procs or NPROC, max(1, len(cases)))
    results = [None] * len(cases)
    todo = list(enumerate(cases))[::-1]
    workers = {}          # parent connection -> [process, index or None, start time]

    def spawn():
        a, b = ctx.Pipe()
        p = ctx.Process(target=_wd_worker, args=(fn, b))
        p.daemon = True
        p.start()
        b.close()
        workers[a] = [p, None, 0.0]
        feed(a)

    def feed(conn):
        w = workers[conn]
        if todo:
            i, case = todo.pop()
            w[1], w[2] = i, time.time()
            conn.send((i, case))
        else:
            w[1] = None
            try:
                conn.send(None)
            except (BrokenPipeError, OSError):
                pass

    for _ in range(procs):
        spawn()
    done = 0
    while done < len(cases):
        busy = [c for c, w in workers.items() if w[1] is not None]
        if not busy:
            break
        for conn in wait(busy, timeout=0.5):
            w = workers[conn]
            try:
                i, r = conn.recv()
            except (EOFError, OSError):
                # the worker died (e.g. killed by the OS): count the case as failed
                i, r = w[1], 'harness: worker died'
                w[0].kill()
                w[0].join()
                del workers[conn]
                if results[i] is None:
                    results[i] = r
                    done += 1
                spawn()
                continue
            if results[i] is None:
                results[i] = r
                done += 1
            feed(conn)
        now = time.time()
        for conn, w in list(workers.items()):
            if w[1] is not None and now - w[2] > limit_s:
                w[0].kill()
                w[0].join()
                del workers[conn]
                conn.close()
                if results[w[1]] is None:
                    results[w[1]] = ('TIMEOUT', limit_s)
                    done += 1
                spawn()
    for conn, w in workers.items():
        try:
            conn.send(None)
        except Exception:
            pass
    for conn, w in workers.items():
        w[0].join(timeout=2)
        if w[0].is_alive():
            w[0].kill()
    return results
