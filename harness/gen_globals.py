#!/venv/bin/python
"""Translator for C06: every piece of process-wide mutable state of /repo and the places that change it
(lean/CssVerif/Gen/Globals.lean).  Found by walking the AST of every module of css_parser:

* module-level names and the functions that rebind them (`global x`) or change them in place;
* attributes of the process-wide objects (css_parser.log, css_parser.ser, css_parser.ser.prefs, profile) stored from
  inside library functions;
* class-level mutable containers changed through an instance without the instance owning a copy;
* mutable default arguments changed in the function body.
"""
import ast
import os
import sys

REPO_SRC = os.environ.get('CSS_PARSER_SRC', '/repo/src')
HERE = os.path.dirname(os.path.abspath(__file__))
OUT = os.path.join(HERE, '..', 'lean', 'CssVerif', 'Gen', 'Globals.lean')
MUTATORS = {'append', 'extend', 'insert', 'remove', 'pop', 'clear', 'update', 'add', 'discard', 'setdefault', 'sort', 'reverse',
            'popitem', '__setitem__', '__delitem__'}
GLOBAL_OBJECTS = {('css_parser', 'log'), ('css_parser', 'ser'), ('css_parser', 'profile')}


def is_mutable_expr(e):
    if isinstance(e, (ast.List, ast.Dict, ast.Set, ast.ListComp, ast.DictComp, ast.SetComp)):
        return True
    if isinstance(e, ast.Call) and isinstance(e.func, ast.Name) and e.func.id in ('list', 'dict', 'set', 'defaultdict', 'OrderedDict'):
        return True
    return False


def root_name(node):
    cur = node
    chain = []
    while isinstance(cur, (ast.Attribute, ast.Subscript)):
        if isinstance(cur, ast.Attribute):
            chain.append(cur.attr)
        cur = cur.value
    if isinstance(cur, ast.Name):
        return cur.id, list(reversed(chain))
    return None, []


def scan_module(path, modname):
    tree = ast.parse(open(path).read())
    cells = {}       # name -> {'kind': ..., 'sites': set()}
    module_names = {}
    for st in tree.body:
        if isinstance(st, ast.Assign):
            for t in st.targets:
                if isinstance(t, ast.Name):
                    module_names[t.id] = 'mutable' if is_mutable_expr(st.value) else 'other'
    sites = []

    class V(ast.NodeVisitor):
        def __init__(self):
            self.func = []
            self.locals = [set()]
            self.globals_decl = [set()]
            self.cls = []

        def visit_ClassDef(self, node):
            self.cls.append(node.name)
            # class-level mutable containers
            for st in node.body:
                if isinstance(st, ast.Assign) and is_mutable_expr(st.value):
                    for t in st.targets:
                        if isinstance(t, ast.Name):
                            class_cells[(node.name, t.id)] = {'owned': False, 'sites': set()}
            self.generic_visit(node)
            self.cls.pop()

        def visit_FunctionDef(self, node):
            self.func.append(node.name)
            loc = set(a.arg for a in node.args.args + node.args.kwonlyargs)
            gl = set()
            for sub in ast.walk(node):
                if isinstance(sub, ast.Global):
                    gl |= set(sub.names)
                elif isinstance(sub, ast.Assign):
                    for t in sub.targets:
                        if isinstance(t, ast.Name):
                            loc.add(t.id)
                elif isinstance(sub, (ast.For, ast.comprehension)):
                    tgt = sub.target
                    for n in ast.walk(tgt):
                        if isinstance(n, ast.Name):
                            loc.add(n.id)
            loc -= gl
            self.locals.append(loc)
            self.globals_decl.append(gl)
            # mutable default arguments changed in the body
            defaults = node.args.defaults
            args = node.args.args[len(node.args.args) - len(defaults):]
            for a, d in zip(args, defaults):
                if is_mutable_expr(d):
                    for sub in ast.walk(node):
                        if isinstance(sub, ast.Call) and isinstance(sub.func, ast.Attribute) and sub.func.attr in MUTATORS and \
                                isinstance(sub.func.value, ast.Name) and sub.func.value.id == a.arg:
                            sites.append(('default-arg', '%s.%s(%s=)' % (modname, '.'.join(self.cls + self.func), a.arg), node.lineno))
            self.generic_visit(node)
            self.func.pop()
            self.locals.pop()
            self.globals_decl.pop()

        visit_AsyncFunctionDef = visit_FunctionDef

        def where(self):
            return '%s.%s' % (modname, '.'.join(self.cls + self.func))

        def is_module_name(self, name):
            return bool(self.func) and name in module_names and name not in self.locals[-1]

        def visit_Assign(self, node):
            for t in node.targets:
                self.store(t, node)
            self.generic_visit(node)

        def visit_AugAssign(self, node):
            self.store(node.target, node)
            self.generic_visit(node)

        def visit_Delete(self, node):
            for t in node.targets:
                self.store(t, node)
            self.generic_visit(node)

        def store(self, t, node):
            if not self.func:
                return
            if isinstance(t, ast.Name):
                if t.id in self.globals_decl[-1]:
                    sites.append(('module', '%s.%s' % (modname, t.id), self.where()))
                return
            name, chain = root_name(t)
            if name is None:
                return
            if name == 'css_parser' and chain:
                sites.append(('global-object', 'css_parser.' + '.'.join(chain), self.where()))
            elif self.is_module_name(name):
                sites.append(('module', '%s.%s%s' % (modname, name, ('.' + '.'.join(chain)) if chain and isinstance(t, ast.Attribute) else ''),
                              self.where()))
            elif name in ('cls',) or (self.cls and name == self.cls[-1]):
                if chain:
                    sites.append(('class', '%s.%s.%s' % (modname, self.cls[-1] if self.cls else '?', chain[0]), self.where()))

        def visit_Call(self, node):
            f = node.func
            if self.func and isinstance(f, ast.Attribute) and f.attr in MUTATORS:
                name, chain = root_name(f.value)
                if name is not None:
                    if name == 'css_parser' and chain:
                        sites.append(('global-object', 'css_parser.' + '.'.join(chain), self.where()))
                    elif self.is_module_name(name) and module_names[name] == 'mutable' or \
                            (self.func and name in module_names and name not in self.locals[-1] and module_names[name] == 'mutable'):
                        sites.append(('module', '%s.%s' % (modname, name), self.where()))
                    elif name == 'self' and chain and self.cls:
                        key = (self.cls[-1], chain[0])
                        if key in class_cells:
                            class_cells[key]['sites'].add(self.where())
            self.generic_visit(node)
    class_cells = {}
    v = V()
    v.visit(tree)
    # a class-level container that the instance re-creates in __init__ is not shared
    for node in ast.walk(tree):
        if isinstance(node, ast.ClassDef):
            for sub in ast.walk(node):
                if isinstance(sub, ast.Assign):
                    for t in sub.targets:
                        if isinstance(t, ast.Attribute) and isinstance(t.value, ast.Name) and t.value.id == 'self' and \
                                (node.name, t.attr) in class_cells:
                            class_cells[(node.name, t.attr)]['owned'] = True
    for (cls, attr), info in class_cells.items():
        if info['sites'] and not info['owned']:
            for s in sorted(info['sites']):
                sites.append(('class-shared', '%s.%s.%s' % (modname, cls, attr), s))
    return sites


def scan():
    root = os.path.join(REPO_SRC, 'css_parser')
    out = []
    for dirpath, _, files in os.walk(root):
        for f in sorted(files):
            if f.endswith('.py'):
                path = os.path.join(dirpath, f)
                rel = os.path.relpath(path, REPO_SRC)[:-3].replace(os.sep, '.')
                if rel.endswith('.__init__'):
                    rel = rel[:-9]
                out.extend(scan_module(path, rel))
    cells = {}
    for kind, cell, where in out:
        cells.setdefault((kind, cell), set()).add(str(where))
    return cells


# ----------------------------------------------------------------------------- save / restore discipline

# library functions that change a process-wide setting for the duration of a call
TEMPORARY = [('css_parser.parse', 'CSSParser', 'parseString'), ('css_parser.parse', 'CSSParser', 'parseStyle'),
             ('css_parser.parse', 'CSSParser', 'parseFile'), ('css_parser.parse', 'CSSParser', 'parseUrl'),
             ('css_parser.script', None, 'csscombine')]
CELLS = {'css_parser.log.raiseExceptions': 0, 'css_parser.ser': 1}
NEVER_RAISES = {'isinstance', 'len', 'str', 'info', 'debug', 'warn', 'lower', 'startswith', 'endswith', 'bool'}


def cell_of(node):
    """the process-wide cell an expression denotes (or lives in)"""
    name, chain = root_name(node)
    if name == 'css_parser' and chain:
        full = 'css_parser.' + '.'.join(chain)
        for c in CELLS:
            if full == c or full.startswith(c + '.'):
                return c
    return None


class GlobalIR:
    def __init__(self):
        self.modules = {}

    def find(self, modname, clsname, fname):
        path = os.path.join(REPO_SRC, modname.replace('.', os.sep) + '.py')
        if path not in self.modules:
            self.modules[path] = ast.parse(open(path).read())
        tree = self.modules[path]
        body = tree.body
        if clsname:
            for n in body:
                if isinstance(n, ast.ClassDef) and n.name == clsname:
                    body = n.body
        for n in body:
            if isinstance(n, ast.FunctionDef) and n.name == fname:
                return n, body
        return None, body

    def function(self, modname, clsname, fname, consts=None, depth=0):
        node, siblings = self.find(modname, clsname, fname)
        if node is None:
            return ('raise',)
        self.ctx = getattr(self, 'ctx', {'saved': {}, 'dirty': set()})
        return self.block(node.body, modname, clsname, consts or {}, depth)

    def block(self, stmts, m, c, consts, depth):
        out = []
        for st in stmts:
            out.append(self.stmt(st, m, c, consts, depth))
        return gseq(out)

    def stmt(self, st, m, c, consts, depth):
        if isinstance(st, ast.Expr) and isinstance(st.value, ast.Constant):
            return ('skip',)
        if isinstance(st, (ast.Assign, ast.AugAssign)):
            pre = self.expr(st.value, m, c, consts, depth)
            targets = st.targets if isinstance(st, ast.Assign) else [st.target]
            post = []
            for t in targets:
                cell = cell_of(t) if isinstance(t, (ast.Attribute, ast.Subscript)) else None
                if cell:
                    post.append(self.write(cell, st.value))
                else:
                    # remember what a local / attribute holds: the value of a cell read while it was untouched
                    src = cell_of(st.value) if isinstance(st.value, (ast.Attribute,)) else None
                    key = ast.unparse(t)
                    if src and src not in self.ctx['dirty'] and cell_of(st.value) == src and \
                            'css_parser.' + '.'.join(root_name(st.value)[1]) == src:
                        self.ctx['saved'][key] = src
                    else:
                        self.ctx['saved'].pop(key, None)
            return gseq([pre] + post)
        if isinstance(st, ast.Expr):
            return self.expr(st.value, m, c, consts, depth)
        if isinstance(st, ast.If):
            test = st.test
            if isinstance(test, ast.Name) and test.id in consts:
                return self.block(st.body if consts[test.id] else st.orelse, m, c, consts, depth)
            pre = self.expr(test, m, c, consts, depth)
            d0 = set(self.ctx['dirty'])
            s0 = dict(self.ctx['saved'])
            a = self.block(st.body, m, c, consts, depth)
            d1 = set(self.ctx['dirty'])
            s1 = dict(self.ctx['saved'])
            self.ctx['dirty'] = set(d0)
            self.ctx['saved'] = dict(s0)
            b = self.block(st.orelse, m, c, consts, depth)
            self.ctx['dirty'] |= d1
            # a variable holds the entry value of a cell only if it does on both paths
            s2 = self.ctx['saved']
            self.ctx['saved'] = {k: v for k, v in s1.items() if s2.get(k) == v}
            return gseq([pre, ('alt', a, b)])
        if isinstance(st, (ast.For, ast.While)):
            return gseq([self.expr(st.iter if isinstance(st, ast.For) else st.test, m, c, consts, depth),
                         ('loop', self.block(st.body, m, c, consts, depth))])
        if isinstance(st, ast.Return):
            return gseq([self.expr(st.value, m, c, consts, depth) if st.value is not None else ('skip',), ('ret',)])
        if isinstance(st, ast.Raise):
            return gseq([('raise',), ('ret',)])
        if isinstance(st, ast.Try):
            body = self.block(st.body, m, c, consts, depth)
            out = body
            if st.handlers:
                hs = [self.block(h.body, m, c, consts, depth) for h in st.handlers]
                alt = hs[0]
                for h in hs[1:]:
                    alt = ('alt', alt, h)
                out = ('alt', body, gseq([body, alt]))
            out = gseq([out, self.block(st.orelse, m, c, consts, depth)])
            if st.finalbody:
                out = ('tryFinally', out, self.block(st.finalbody, m, c, consts, depth))
            return out
        if isinstance(st, ast.With):
            return gseq([self.expr(i.context_expr, m, c, consts, depth) for i in st.items] + [self.block(st.body, m, c, consts, depth)])
        if isinstance(st, (ast.Pass, ast.Import, ast.ImportFrom, ast.Global, ast.FunctionDef, ast.Assert, ast.Delete)):
            return ('skip',)
        return ('raise',)

    def write(self, cell, value):
        """a store to a cell: putting back the value saved at entry, or a change"""
        key = ast.unparse(value)
        if self.ctx['saved'].get(key) == cell:
            if key.endswith('.pop()'):
                del self.ctx['saved'][key]      # the next pop yields another value
            self.ctx['dirty'].discard(cell)
            return ('restore', [CELLS[cell]])
        self.ctx['dirty'].add(cell)
        return ('store', CELLS[cell])

    def expr(self, e, m, c, consts, depth):
        out = []
        if e is None:
            return ('skip',)
        for node in ast.walk(e):
            if isinstance(node, ast.Call):
                out.append(self.call(node, m, c, consts, depth))
        out.reverse()       # ast.walk is outside-in; inner calls run first
        return gseq(out)

    def call(self, node, m, c, consts, depth):
        f = node.func
        # css_parser.setSerializer(x)
        if isinstance(f, ast.Attribute) and f.attr == 'setSerializer' and isinstance(f.value, ast.Name) and f.value.id == 'css_parser':
            return self.write('css_parser.ser', node.args[0])
        # a save stack: X.append(<cell, read while untouched>) ... <cell> = X.pop(); one pop per append
        if isinstance(f, ast.Attribute) and f.attr == 'append' and len(node.args) == 1 and not node.keywords and \
                isinstance(node.args[0], ast.Attribute) and not cell_of(f.value):
            src = cell_of(node.args[0])
            if src and src not in self.ctx['dirty'] and 'css_parser.' + '.'.join(root_name(node.args[0])[1]) == src:
                self.ctx['saved'][ast.unparse(f.value) + '.pop()'] = src
                return ('skip',)
        if isinstance(f, ast.Attribute) and f.attr == 'pop' and not node.args and ast.unparse(node) in self.ctx['saved']:
            return ('skip',)
        # a change below a cell
        if isinstance(f, ast.Attribute) and cell_of(f.value):
            cell = cell_of(f.value)
            if f.attr in ('info', 'debug', 'warn', 'error'):
                for k in node.keywords:
                    if k.arg == 'neverraise':
                        return ('skip',)
                return ('raise',)
            self.ctx['dirty'].add(cell)
            return ('store', CELLS[cell])
        # self.method(...) of the same class: analysed in place (constant arguments select branches)
        if isinstance(f, ast.Attribute) and isinstance(f.value, ast.Name) and f.value.id == 'self' and c and depth < 3:
            callee, _ = self.find(m, c, f.attr)
            if callee is None and f.attr.startswith('__'):
                callee, _ = self.find(m, c, f.attr)
            if callee is not None:
                params = [a.arg for a in callee.args.args[1:]]
                cs = {}
                for pname, arg in zip(params, node.args):
                    if isinstance(arg, ast.Constant):
                        cs[pname] = arg.value
                return ('scope', self.block(callee.body, m, c, cs, depth + 1))
        name = f.attr if isinstance(f, ast.Attribute) else (f.id if isinstance(f, ast.Name) else None)
        if name in NEVER_RAISES:
            return ('skip',)
        return ('raise',)


def gseq(xs):
    xs = [x for x in xs if x != ('skip',)]
    if not xs:
        return ('skip',)
    out = xs[-1]
    for x in reversed(xs[:-1]):
        out = ('seq', x, out)
    return out


def lean_ir(ir):
    k = ir[0]
    if k in ('skip', 'ret'):
        return '.' + k
    if k == 'raise':
        return '.raise_'
    if k == 'store':
        return '(.store %d)' % ir[1]
    if k == 'restore':
        return '(.restore [%s])' % ', '.join(str(x) for x in ir[1])
    if k in ('seq', 'alt', 'tryFinally'):
        return '(.%s %s %s)' % (k, lean_ir(ir[1]), lean_ir(ir[2]))
    if k in ('loop', 'scope'):
        return '(.%s %s)' % (k, lean_ir(ir[1]))
    raise AssertionError(ir)


def temporaries():
    out = []
    for m, c, fn in TEMPORARY:
        g = GlobalIR()
        g.ctx = {'saved': {}, 'dirty': set()}
        out.append(('%s.%s' % (c, fn) if c else fn, g.function(m, c, fn)))
    return out


def generate():
    cells = scan()
    keys = sorted(cells)
    lines = ['-- GENERATED by harness/gen_globals.py from the Python AST of /repo — do not edit',
             'import CssVerif.Model.SetterIR', 'namespace CssVerif.Gen', '',
             '/-- process-wide mutable state that library code changes: (kind, cell) -/',
             'def mutatedCells : List (String × String) := [']
    lines.append(',\n'.join('  ("%s", "%s")' % k for k in keys))
    lines.append(']')
    lines.append('')
    progs = temporaries()
    lines.append('/-- functions that change a process-wide setting for the duration of a call; fields: %s -/' %
                 ', '.join('%d=%s' % (v, k) for k, v in CELLS.items()))
    for i, (name, ir) in enumerate(progs):
        lines.append('def temporary%d : CssVerif.SetterIR.IR := %s' % (i, lean_ir(ir)))
    lines.append('def temporaries : List (String × CssVerif.SetterIR.IR) := [%s]' %
                 ', '.join('("%s", temporary%d)' % (n, i) for i, (n, _) in enumerate(progs)))
    lines.append('')
    lines.append('end CssVerif.Gen')
    text = '\n'.join(lines) + '\n'
    old = open(OUT).read() if os.path.exists(OUT) else None
    if old != text:
        os.makedirs(os.path.dirname(OUT), exist_ok=True)
        with open(OUT, 'w') as f:
            f.write(text)
    return cells, old != text


if __name__ == '__main__':
    cells, changed = generate()
    for (kind, cell), where in sorted(cells.items()):
        print('%-14s %-50s %s' % (kind, cell, ', '.join(sorted(where))[:150]))
    for name, ir in temporaries():
        print('temporary', name, lean_ir(ir)[:300])
    print('gen_globals:', 'rewritten' if changed else 'unchanged')
