"""Lexeme derivations for C09 (and reused by C10/C13): each lexeme knows its rendering and the
(type, value) token the CSS token grammar — as the property states it — assigns to it.

A derivation is (kind, text, expected_type, expected_value).  `join` inserts separators chosen by
the adjacency rules so that neighbours cannot merge, and returns text + expected token list.
"""
import random

HEX = '0123456789abcdefABCDEF'
NMSTART_ASCII = 'abcdefghijklmnopqrstuvwxyzABCDEFGHIJKLMNOPQRSTUVWXYZ_'
NMCHAR_ASCII = NMSTART_ASCII + '0123456789-'
# (the last four are white space for Python's \s and str.strip but name characters for CSS)
NONASCII = 'é中\x80\U0001F600' + '\xa0\u3000\x85\u2003'
KNOWN_AT = {'@font-face': 'FONT_FACE_SYM', '@import': 'IMPORT_SYM', '@media': 'MEDIA_SYM',
            '@namespace': 'NAMESPACE_SYM', '@page': 'PAGE_SYM', '@variables': 'VARIABLES_SYM'}
TERMS = [' ', '\t', '\n', '\r', '\f', '\r\n']


class NameChar:
    """one character of a name: literal, hex escape, or literal escape"""

    def __init__(self, ch, form='lit', pad=0, term='', upper=False):
        self.ch, self.form, self.pad, self.term, self.upper = ch, form, pad, term, upper

    def render(self):
        if self.form == 'lit':
            return self.ch
        if self.form == 'hex':
            h = '%x' % ord(self.ch)
            if self.upper:
                h = h.upper()
            return '\\' + '0' * self.pad + h + self.term
        return '\\' + self.ch          # literal escape

    def value(self):
        if self.form == 'litesc':
            return '\\' + self.ch      # kept verbatim for later normalisation
        return self.ch

    def ndigits(self):
        return self.pad + len('%x' % ord(self.ch))


def fix_terms(chars, following=''):
    """give every hex escape the terminator it needs so that it cannot swallow/merge its follower"""
    for i, c in enumerate(chars):
        if c.form != 'hex':
            continue
        nxt = chars[i + 1].render() if i + 1 < len(chars) else following
        n0 = nxt[:1]
        if c.ndigits() < 6:
            if c.term == '' and (n0 in HEX and n0 != '' or n0 in ' \t\r\n\f' and n0 != ''):
                c.term = ' '
        if c.term in ('\r',) and n0 == '\n':
            c.term = '\r\n'
        if c.term == '' and n0 != '' and n0 in ' \t\r\n\f':
            c.term = ' '
    return chars


def rnd_namechar(rnd, first, esc, pool_extra=''):
    pool = (NMSTART_ASCII if first else NMCHAR_ASCII)
    r = rnd.random()
    if r < 0.12:
        ch = rnd.choice(NONASCII)
    else:
        ch = rnd.choice(pool)
    if first and ch in '0123456789-':
        ch = 'a'
    if not esc:
        return NameChar(ch)
    r = rnd.random()
    if r < 0.72:
        return NameChar(ch)
    if r < 0.9:
        nd = len('%x' % ord(ch))
        pad = rnd.randint(0, 6 - nd)
        term = rnd.choice(TERMS + ['', '']) if pad + nd < 6 else rnd.choice(['', ' ', '\n'])
        return NameChar(ch, 'hex', pad, term, rnd.random() < 0.3)
    # literal escape: any char except hex digits and newlines; keep to chars legal in a name
    lit = rnd.choice('gGhHzZ_-' + 'é' + 'pqrstuvwxyz')
    if lit in HEX:
        lit = 'g'
    return NameChar(lit, 'litesc')


def rnd_name(rnd, esc, start=True, minlen=1, maxlen=6, dash=True):
    chars = []
    pre = ''
    if start and dash and rnd.random() < 0.15:
        pre = '-'
    n = rnd.randint(minlen, maxlen)
    for i in range(n):
        chars.append(rnd_namechar(rnd, start and i == 0, esc))
    return pre, chars


def name_render(pre, chars, following=''):
    fix_terms(chars, following)
    return pre + ''.join(c.render() for c in chars), pre + ''.join(c.value() for c in chars)


def normalize_name(value):
    """what CSS means by the name: literal escapes dropped, lower-cased"""
    out = []
    i = 0
    while i < len(value):
        if value[i] == '\\' and i + 1 < len(value):
            out.append(value[i + 1])
            i += 2
        else:
            out.append(value[i])
            i += 1
    return ''.join(out).lower()


def lex_ident(rnd, esc):
    while True:
        pre, chars = rnd_name(rnd, esc)
        text, value = name_render(pre, chars)
        n = normalize_name(value)
        if n in ('url', 'and', 'u') or n.startswith('u+'):
            continue
        return ('ident', text, 'IDENT', value)


def lex_function(rnd, esc):
    k, text, _, value = lex_ident(rnd, esc)
    # the '(' follows directly; a trailing unterminated hex escape is fine: '(' is not hex/ws
    return ('function', text + '(', 'FUNCTION', value + '(')


def lex_atkw(rnd, esc):
    r = rnd.random()
    if r < 0.5:
        base = rnd.choice(list(KNOWN_AT))[1:]
        chars = []
        for ch in base:
            c = NameChar(ch)
            if rnd.random() < 0.3:
                c = NameChar(ch.upper() if rnd.random() < 0.7 else ch)
            if esc and rnd.random() < 0.15 and ch not in HEX and ch != '-':
                c = NameChar(ch, 'litesc')
            chars.append(c)
        text, value = name_render('', chars)
        # at-keyword values are compared as written (see DESIGN C09: the tokenizer does not un-escape them)
        return ('atkw', '@' + text, KNOWN_AT['@' + base], '@' + text)
    pre, chars = rnd_name(rnd, False)
    text, value = name_render(pre, chars)
    if normalize_name('@' + value) in KNOWN_AT or normalize_name(value) == 'charset':
        text = value = 'x' + text
    return ('atkw', '@' + text, 'ATKEYWORD', '@' + value)


def lex_hash(rnd, esc):
    _, chars = rnd_name(rnd, esc, start=False)
    text, value = name_render('', chars)
    return ('hash', '#' + text, 'HASH', '#' + value)


def rnd_num(rnd):
    sign = rnd.choice(['', '', '+', '-'])
    k = rnd.random()
    if k < 0.4:
        body = ''.join(rnd.choice('0123456789') for _ in range(rnd.randint(1, 4)))
    elif k < 0.7:
        body = ''.join(rnd.choice('0123456789') for _ in range(rnd.randint(1, 3))) + '.' + \
            ''.join(rnd.choice('0123456789') for _ in range(rnd.randint(1, 4)))
    else:
        body = '.' + ''.join(rnd.choice('0123456789') for _ in range(rnd.randint(1, 4)))
    return sign + body


def lex_number(rnd, esc):
    n = rnd_num(rnd)
    return ('number', n, 'NUMBER', n)


def lex_percentage(rnd, esc):
    n = rnd_num(rnd) + '%'
    return ('percentage', n, 'PERCENTAGE', n)


def lex_dimension(rnd, esc):
    n = rnd_num(rnd)
    while True:
        pre, chars = rnd_name(rnd, esc, maxlen=3)
        text, value = name_render(pre, chars)
        if pre == '-' and value[1:2] == '-':
            continue
        return ('dimension', n + text, 'DIMENSION', n + value)


def lex_string(rnd, esc):
    q = rnd.choice('"\'')
    other = "'" if q == '"' else '"'
    text = value = ''
    n = rnd.randint(0, 7)
    parts = []
    for _ in range(n):
        r = rnd.random()
        if r < 0.55 or not esc:
            ch = rnd.choice('abc xyz()/*;{}@#!,' + 'é' + other + '\t')
            parts.append(('c', ch))
        elif r < 0.65:
            parts.append(('q', q))
        elif r < 0.78:
            parts.append(('nl', rnd.choice(['\n', '\r\n', '\f', '\r'])))
        elif r < 0.9:
            ch = rnd.choice('a"\'z{é ')
            nd = len('%x' % ord(ch))
            pad = rnd.randint(0, 6 - nd)
            parts.append(('hex', ch, pad))
        else:
            parts.append(('lit', rnd.choice('gz!~-')))
    for i, p in enumerate(parts):
        if p[0] == 'c':
            text += p[1]
            value += p[1]
        elif p[0] == 'q':
            text += '\\' + q
            value += '\\' + q          # escaped quote stays as written in the token value
        elif p[0] == 'nl':
            text += '\\' + p[1]        # escaped newline: removed from the value
            # '\r' followed by a literal '\n' would be read as one newline '\r\n'
            if p[1] == '\r' and i + 1 < len(parts) and parts[i + 1][0] == 'c' and parts[i + 1][1] == '\n':
                pass
        elif p[0] == 'hex':
            h = '0' * p[2] + '%x' % ord(p[1])
            nxt = ''
            if i + 1 < len(parts):
                nx = parts[i + 1]
                nxt = nx[1][:1] if nx[0] == 'c' else '\\'
            else:
                nxt = q
            term = ''
            if len(h) < 6 and (nxt in HEX or nxt in ' \t'):
                term = ' '
            elif nxt in ' \t' and nxt:
                term = ' '
            text += '\\' + h + term
            value += p[1]
        else:
            text += '\\' + p[1]
            value += '\\' + p[1]
    return ('string', q + text + q, 'STRING', q + value + q)


URL_WORD = ['url', 'URL', 'Url', 'uRl']
URL_WORD_ESC = ['u\\rl', '\\55 rl', 'ur\\6c ', '\\75\\72\\6c', 'U\\R\\L', 'u\\000072l', '\\u\\r\\l']


def spell_letters(rnd, word):
    """every letter plain (either case), as a hex escape (leading zeros, either digit case, any terminator incl. CR LF, or
    none: the next character is no hex digit) or as a literal escape"""
    out = []
    for ch in word:
        r = rnd.random()
        c = ch.upper() if rnd.random() < 0.3 else ch
        if r < 0.5:
            out.append(c)
        elif r < 0.85:
            h = '%x' % ord(c)
            h = '0' * rnd.randint(0, 6 - len(h)) + (h.upper() if rnd.random() < 0.3 else h)
            out.append('\\' + h + rnd.choice(TERMS + ['', '']))
        else:
            out.append('\\' + c)
    return ''.join(out)


def lex_uri(rnd, esc):
    word = rnd.choice(URL_WORD + (URL_WORD_ESC + [spell_letters(rnd, 'url') for _ in range(6)] if esc else []))
    w1 = rnd.choice(['', '', ' ', '\n', '\t '])
    w2 = rnd.choice(['', '', ' ', '\r\n'])
    # value of the head: hex escapes resolved, literal escapes kept
    head_val = _hex_only(word)
    if rnd.random() < 0.5:
        _, stext, _, sval = lex_string(rnd, esc)
        # inside url() the escaped newline is NOT removed (cleanstring applies to STRING/INVALID only)
        body_t, body_v = stext, None
        # recompute value: only hex escapes resolved
        body_v = _hex_only(stext)
    else:
        n = rnd.randint(0, 8)
        body_t = ''.join(rnd.choice('abc/.:?#%&-_~!*$+=@[]^`{|}<>' + 'é') for _ in range(n))
        body_v = body_t
    text = word + '(' + w1 + body_t + w2 + ')'
    value = head_val + '(' + w1 + body_v + w2 + ')'
    return ('uri', text, 'URI', value)


def _hex_only(s):
    """resolve hex escapes (with optional terminator) and nothing else"""
    out = []
    i = 0
    while i < len(s):
        if s[i] == '\\' and i + 1 < len(s) and s[i + 1] in HEX:
            j = i + 1
            while j < len(s) and j - i - 1 < 6 and s[j] in HEX:
                j += 1
            num = int(s[i + 1:j], 16)
            if s[j:j + 2] == '\r\n':
                j += 2
            elif j < len(s) and s[j] in ' \t\r\n\f':
                j += 1
            out.append(chr(num) if num <= 0x10FFFF else s[i:j])
            i = j
        else:
            out.append(s[i])
            i += 1
    return ''.join(out)


def lex_urange(rnd, esc):
    u = rnd.choice('uU')
    a = ''.join(rnd.choice(HEX + '?') for _ in range(rnd.randint(1, 6)))
    s = u + '+' + a
    if rnd.random() < 0.4:
        s += '-' + ''.join(rnd.choice(HEX) for _ in range(rnd.randint(1, 6)))
    if esc and rnd.random() < 0.25:
        # the u written as an escape (hex with any terminator, or literal)
        w = spell_letters(rnd, u)
        if w != u:
            return ('urange', w + s[1:], 'UNICODE-RANGE', _hex_only(w) + s[1:])
    return ('urange', s, 'UNICODE-RANGE', s)


def lex_comment(rnd, esc):
    body = ''.join(rnd.choice('abc */\n"\'{};@\\') for _ in range(rnd.randint(0, 8)))
    while '*/' in body:
        body = body.replace('*/', '* /')
    if body.endswith('*') and rnd.random() < 0.5:
        pass
    text = '/*' + body + '*/'
    return ('comment', text, 'COMMENT', _hex_only(text))


MATCH = {'~=': 'INCLUDES', '|=': 'DASHMATCH', '^=': 'PREFIXMATCH', '$=': 'SUFFIXMATCH', '*=': 'SUBSTRINGMATCH'}
DELIMS = list(',:;{}>[]()+~*/.=!|&$^<%?-')
WS = [' ', '\t', '\n', '\r', '\f', '\r\n', '  ', ' \n ']


def lex_simple(kind):
    def f(rnd, esc):
        if kind == 'cdo':
            return ('cdo', '<!--', 'CDO', '<!--')
        if kind == 'cdc':
            return ('cdc', '-->', 'CDC', '-->')
        if kind == 'match':
            m = rnd.choice(list(MATCH))
            return ('match', m, MATCH[m], m)
        if kind == 'ws':
            w = rnd.choice(WS)
            return ('ws', w, 'S', w)
        d = rnd.choice(DELIMS)
        return ('delim', d, 'CHAR', d)
    return f


GENS = {
    'ident': lex_ident, 'function': lex_function, 'atkw': lex_atkw, 'hash': lex_hash, 'string': lex_string,
    'uri': lex_uri, 'number': lex_number, 'percentage': lex_percentage, 'dimension': lex_dimension,
    'urange': lex_urange, 'comment': lex_comment, 'cdo': lex_simple('cdo'), 'cdc': lex_simple('cdc'),
    'match': lex_simple('match'), 'ws': lex_simple('ws'), 'delim': lex_simple('delim'),
}
KINDS = list(GENS)

NAME_END = ('ident', 'atkw', 'hash', 'dimension', 'urange')


def needs_sep(a, b):
    """can lexeme b directly follow lexeme a without merging?  conservative"""
    ka, ta = a[0], a[1]
    kb, tb = b[0], b[1]
    f = tb[0]
    if ka == 'ws' and kb == 'ws':
        return True
    if ka in ('ws', 'comment', 'string', 'uri', 'cdc'):
        return False
    namelike = f in NMCHAR_ASCII or f == '\\' or ord(f) >= 0x80
    if ka in NAME_END:
        if namelike or f == '(' or (ka == 'urange' and f == '?'):
            return True
        # an unterminated trailing hex escape swallows one following whitespace,
        # and a '\r' terminator followed by '\n' is one terminator
        if ta.endswith('\r') and f == '\n':
            return True
        return ta_ends_with_open_hex(ta) and f in ' \t\r\n\f'
    if ka == 'number':
        return namelike or f in '.%'
    if ka == 'percentage':
        return False
    if ka == 'function':
        return False
    if ka == 'cdo':
        return False
    if ka == 'match':
        return False
    if ka == 'delim':
        d = ta
        if d in '-+.':
            # (a name that starts with ONE hyphen may follow directly: an identifier has at most one leading hyphen, so
            # `--a` is the delimiter and the identifier `-a`)
            if kb in ('ident', 'function') and f == '-' and len(tb) > 1 and (
                    tb[1].isalpha() and tb[1].isascii() or tb[1] == '_' or tb[1] == '\\' or ord(tb[1]) >= 0x80):
                return False
            return namelike or f in '.-' or kb in ('number', 'percentage', 'dimension', 'cdc')
        if d == '#':
            return namelike
        if d == '/':
            return True            # '/*' comment start, and the RATIO production (digits / digits before ')')
        if d == '<':
            return f == '!'
        if d in '~|^$*':
            return f == '='
        if d == '!':
            return f == '-'       # '<!--' needs '<' first; harmless
        return False
    return False


def ta_ends_with_open_hex(t):
    i = len(t)
    n = 0
    while i > 0 and t[i - 1] in HEX and n < 6:
        i -= 1
        n += 1
    return 0 < n <= 6 and i > 0 and t[i - 1] == '\\' and not (i > 1 and t[i - 2] == '\\')


def rnd_sep(rnd, after):
    """a separator lexeme; after '/' only a comment is safe"""
    if after[0] == 'delim' and after[1] == '/':
        return ('comment', '/**/', 'COMMENT', '/**/')
    if rnd.random() < 0.8:
        return GENS['ws'](rnd, False)
    return lex_comment(rnd, False)


def sequence(rnd, n, esc=True, kinds=None):
    """n lexemes joined by the adjacency rules → (text, expected [(type, value)], derivation)"""
    kinds = kinds or KINDS
    lexs = []
    for _ in range(n):
        k = rnd.choice(kinds)
        lx = GENS[k](rnd, esc)
        if lexs and needs_sep(lexs[-1], lx):
            sep = rnd_sep(rnd, lexs[-1])
            if needs_sep(lexs[-1], sep):
                sep = ('comment', '/**/', 'COMMENT', '/**/')
            if lexs[-1][0] == 'ws' and sep[0] == 'ws':
                sep = ('comment', '/**/', 'COMMENT', '/**/')
            lexs.append(sep)
            if needs_sep(sep, lx):
                lexs.append(('comment', '/**/', 'COMMENT', '/**/'))
        lexs.append(lx)
    text = ''.join(l[1] for l in lexs)
    exp = [(l[2], l[3]) for l in lexs]
    return text, exp, lexs
