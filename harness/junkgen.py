"""Balanced token soup for C04 (junk statements / declarations) and the neighbours around it."""

ATOMS = ['x', 'foo', '-a', '12', '1.5em', '50%', '#h', '"s"', "'t'", '"a;b}"', "'{('", 'url(u)', 'url("v;w")', 'U+0-7F',
         ':', ',', '.', '>', '+', '~', '*', '=', '!', '$', '%', '&', '/', '|', '/*c*/', '/*;}*/', '~=', '|=', '^=',
         '<!--', '-->', '@kw', '\\{', 'a\\;b',
         # identifiers whose value is a delimiter (hex escapes are resolved by the tokenizer): names, not delimiters
         '\\7b ', '\\7d ', '\\3b ', '\\28 ', '\\29 ', '\\5b ', '\\5d ', '\\3a ', '\\21 ', '\\2c ', '\\3b\\7d ']
POISON = ['$', '&', '12', '"s"', '1.5em', '50%', '=']          # never valid at depth 0 of a selector / prelude
FIRST_KINDS = ['ident', 'number', 'dimension', 'percentage', 'hash', 'string', 'uri', 'function', 'paren', 'bracket',
               'char$', 'char!', 'char:', 'char.', 'char*', 'char=', 'char>', 'includes', 'urange']
FIRST_TEXT = {'ident': 'x', 'number': '12', 'dimension': '1.5em', 'percentage': '50%', 'hash': '#h', 'string': '"s"',
              'uri': 'url(u)', 'char$': '$', 'char!': '!', 'char:': ':', 'char.': '.', 'char*': '*', 'char=': '=',
              'char>': '>', 'includes': '~=', 'urange': 'U+0-7F', 'cdo': '<!--'}


def soup(rnd, n, depth=0, semis=False, bang=True):
    """n balanced items; `;` only when semis (inside groups / blocks)"""
    out = []
    for _ in range(n):
        r = rnd.random()
        if r < 0.22 and depth < 3:
            k = rnd.choice(['f(', '(', '[', '{'] if depth > 0 else ['f(', '(', '['])
            close = {'f(': ')', '(': ')', '[': ']', '{': '}'}[k]
            out.append(k + ' ' + soup(rnd, rnd.randint(0, 3), depth + 1, True, bang) + ' ' + close)
        elif r < 0.27 and semis:
            out.append(';')
        else:
            a = rnd.choice(ATOMS)
            if a == '!' and not bang:
                a = '$'
            out.append(a)
    return ' '.join(out)


def group(rnd, kind):
    if kind == 'function':
        return 'f( ' + soup(rnd, rnd.randint(0, 3), 1, True) + ' )'
    if kind == 'paren':
        return '( ' + soup(rnd, rnd.randint(0, 3), 1, True) + ' )'
    if kind == 'bracket':
        return '[ ' + soup(rnd, rnd.randint(0, 3), 1, True) + ' ]'
    return FIRST_TEXT[kind]


def junk_ruleset(rnd, first=None):
    """(text, first kind): a rule-set whose prelude cannot be a selector, with a balanced block"""
    first = first or rnd.choice(FIRST_KINDS)
    parts = [group(rnd, first)]
    body = soup(rnd, rnd.randint(0, 4), 0, False)
    if body:
        parts.append(body)
    parts.insert(rnd.randint(1, len(parts)), rnd.choice(POISON))
    block = '{ ' + soup(rnd, rnd.randint(0, 5), 1, True) + ' }'
    if rnd.random() < 0.25:
        # a selector list whose LAST part is a good selector and whose block is good: one bad part makes the whole statement junk
        parts.append(rnd.choice([', b', ', d > e', ',f:hover', ', , g']))
        block = '{ left: 0; color: red }'
    return ' '.join(parts) + ' ' + block, first


def junk_atrule(rnd, kw=None):
    """a known at-rule whose content is malformed; ends in `;` or a block"""
    kw = kw or rnd.choice(['@import', '@charset', '@namespace', '@page', '@media', '@font-face'])
    # a STRING is exactly what @import / @namespace / @charset expect: poison them with something else
    body = rnd.choice(['$', '&', '12', '=', '50%']) + ' ' + soup(rnd, rnd.randint(0, 3), 0, False)
    if kw in ('@page', '@media', '@font-face') or rnd.random() < 0.25:
        return '%s %s { %s }' % (kw, body, soup(rnd, rnd.randint(0, 4), 1, True)), kw
    return '%s %s;' % (kw, body), kw


def unknown_atrule(rnd):
    """a well-nested unknown at-rule: kept as an unknown rule"""
    kw = rnd.choice(['@foo', '@x-y', '@Bar'])
    body = soup(rnd, rnd.randint(0, 4), 0, False)
    body = body.replace('@kw', 'k')
    if rnd.random() < 0.5:
        return '%s %s;' % (kw, body)
    return '%s %s { %s }' % (kw, body, soup(rnd, rnd.randint(0, 4), 1, True))


GOOD_DECLS_TAIL = ['left: 0', 'color: blue !important', 'margin: 1px 2px', 'width: calc(1px + 2px)', 'k l: m', '']
DECL_FIRST = ['number', 'dimension', 'percentage', 'hash', 'string', 'uri', 'function', 'paren', 'bracket', 'brace',
              'char$', 'char!', 'char:', 'char.', 'char=', 'char>', 'includes', 'urange']


def junk_decl(rnd, cls=None, first=None):
    """(text, class, first kind): a declaration that cannot be `name: value [!priority]`; no `;` at depth 0"""
    cls = cls or rnd.choice(['first', 'first', 'nocolon', 'novalue', 'priority'])
    if cls == 'first':
        first = first or rnd.choice(DECL_FIRST)
        if first == 'brace':
            head = '{ ' + soup(rnd, rnd.randint(0, 3), 1, True) + ' }'
        else:
            head = group(rnd, first)
        rest = soup(rnd, rnd.randint(0, 4), 0, False)
        if rnd.random() < 0.3:
            # a block at depth 0 and then something that would be a good declaration by itself: still inside the junk,
            # which ends at its own ';'
            rest += ' { ' + soup(rnd, rnd.randint(0, 3), 1, True) + ' } ' + rnd.choice(GOOD_DECLS_TAIL)
        # a depth-0 at-keyword would start an (unknown) at-rule inside the block: keep it out of the tail
        return (head + ' ' + rest).replace('@kw', 'k').strip(), cls, first
    if cls == 'nocolon':
        tail = rnd.choice(['', 'red', 'b c', '$ x', '( : )', '12', '"s"', 'f( a : b )', '[ x ] y'])
        return ('color ' + tail).strip(), cls, 'ident'
    if cls == 'novalue':
        return rnd.choice(['color:', 'color :', 'color: /*c*/', 'color:  ']), cls, 'ident'
    # malformed priority after a complete value
    tail = rnd.choice(['!important x', '! important 1', '!', '! 12', '!important !important', '! "s"', '!important ( )',
                       '!foo', '! imp', '!importan', '!x-important', '!IMPORTANT2'])
    return 'color: red ' + tail, cls, 'ident'


GOOD_RULES = {
    'style': 'a { top: 0 }', 'style2': 'b, c > d { left: 0; color: red }', 'import': '@import "x.css";',
    'import2': '@import url(y.css) print;', 'ns': '@namespace p "u";', 'media': '@media print { e { top: 0 } }',
    'page': '@page { margin: 0 }', 'fontface': '@font-face { font-family: x }', 'unknown': '@foo bar;',
    'unknown2': '@baz { q: r }', 'comment': '/*c*/', 'charset': '@charset "utf-8";',
}


def good_pair(rnd):
    """two runs of good statements (the harness keeps the pair only if their concatenation is accepted whole)"""
    names = list(GOOD_RULES)
    k1 = rnd.randint(0, 2)
    k2 = rnd.randint(1, 2)
    w = [3 if n.startswith('style') else 2 if n.startswith('import') else 1 for n in names]
    seq = rnd.choices(names, weights=w, k=k1 + k2)
    return seq[:k1], seq[k1:]


MEDIA_GOOD = {'style': 'a { top: 0 }', 'style2': 'b, c > d { left: 0; color: red }', 'page': '@page { margin: 0 }',
              'unknown': '@foo bar;', 'comment': '/*c*/', 'media': '@media screen { e { top: 0 } }'}
GOOD_DECLS = ['top: 0', 'color: red !important', 'margin: 1px 2px', 'background: url(a.png) no-repeat',
              'font-family: "a b", serif', 'width: calc(1px + 2px)', 'content: "x;y}"']
