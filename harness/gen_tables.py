#!/venv/bin/python
"""Translator (G): regenerate lean/CssVerif/Gen/*.lean from /repo's working tree.

Regexes are taken from the *live* objects (macros expanded by the code's own
`_expand_macros`), parsed by CPython's own `re._parser`, and emitted as terms
of the Lean `Re` AST.  Anything outside the modelled fragment raises
`Unsupported` -- reported by ./check as a broken obligation, never approximated.

Files are only rewritten when their content changed (so lake does no needless work).
"""
import os
import re
import sys

REPO = os.environ.get('VERIF_REPO', '/repo')
sys.path.insert(0, os.path.join(REPO, 'src'))
import re._parser as P  # noqa: E402
import re._constants as K  # noqa: E402

HERE = os.path.dirname(os.path.abspath(__file__))
GEN = os.path.join(HERE, '..', 'lean', 'CssVerif', 'Gen')


class Unsupported(Exception):
    pass


# ---------------------------------------------------------------- regex → Re

_cat_cache = {}


def category_ranges(cat):
    """expand a unicode category into code point ranges, by asking CPython"""
    if cat in _cat_cache:
        return _cat_cache[cat]
    pat = {K.CATEGORY_SPACE: r'\s', K.CATEGORY_DIGIT: r'\d', K.CATEGORY_WORD: r'\w',
           K.CATEGORY_NOT_SPACE: r'\S', K.CATEGORY_NOT_DIGIT: r'\D', K.CATEGORY_NOT_WORD: r'\W'}.get(cat)
    if pat is None:
        raise Unsupported('category %r' % (cat,))
    m = re.compile(pat, re.U).match
    out = []
    start = None
    for c in range(0x110000):
        if m(chr(c)):
            if start is None:
                start = c
        elif start is not None:
            out.append((start, c - 1))
            start = None
    if start is not None:
        out.append((start, 0x10FFFF))
    _cat_cache[cat] = out
    return out


def tr_in(items):
    neg = False
    rs = []
    for op, av in items:
        if op is K.NEGATE:
            neg = True
        elif op is K.LITERAL:
            rs.append((av, av))
        elif op is K.RANGE:
            rs.append((av[0], av[1]))
        elif op is K.CATEGORY:
            rs.extend(category_ranges(av))
        else:
            raise Unsupported('IN item %r' % (op,))
    return ('cls', neg, tuple(rs))


def seq_of(parts):
    parts = [p for p in parts if p != ('eps',)]
    if not parts:
        return ('eps',)
    r = parts[-1]
    for p in reversed(parts[:-1]):
        r = ('seq', p, r)
    return r


def nullable(r):
    t = r[0]
    if t == 'eps':
        return True
    if t == 'cls':
        return False
    if t == 'seq':
        return nullable(r[1]) and nullable(r[2])
    if t == 'alt':
        return nullable(r[1]) or nullable(r[2])
    return True


def tr(pattern, top=False):
    """sre parse tree → (notAfter, Re)"""
    not_after = None
    parts = []
    for i, (op, av) in enumerate(pattern):
        if op is K.LITERAL:
            parts.append(('cls', False, ((av, av),)))
        elif op is K.NOT_LITERAL:
            parts.append(('cls', True, ((av, av),)))
        elif op is K.ANY:
            parts.append(('cls', True, ((10, 10),)))
        elif op is K.IN:
            parts.append(tr_in(av))
        elif op is K.BRANCH:
            alts = [tr(b)[1] for b in av[1]]
            r = alts[-1]
            for a in reversed(alts[:-1]):
                r = ('alt', a, r)
            parts.append(r)
        elif op is K.SUBPATTERN:
            group, add, dele, p = av
            if add or dele:
                raise Unsupported('inline flags')
            na, r = tr(p, top=(top and i == 0))
            if na is not None:
                if not (top and i == 0):
                    raise Unsupported('look-behind not at pattern start')
                not_after = na
            parts.append(r)
        elif op in (K.MAX_REPEAT, K.MIN_REPEAT):
            lo, hi, p = av
            body = tr(p)[1]
            if op is K.MIN_REPEAT:
                if (lo, hi) != (0, K.MAXREPEAT):
                    raise Unsupported('lazy repeat other than *?')
                parts.append(('lazyStar', body))
                continue
            if hi is K.MAXREPEAT or hi == K.MAXREPEAT:
                if nullable(body):
                    raise Unsupported('star over nullable body')
                parts.extend([body] * lo)
                parts.append(('star', body))
            else:
                parts.extend([body] * lo)
                tail = ('eps',)
                for _ in range(hi - lo):
                    tail = ('opt', seq_of([body, tail]))
                parts.append(tail)
        elif op is K.ASSERT:
            direction, p = av
            p = list(p)
            if direction == 1 and len(p) == 1 and p[0][0] is K.LITERAL:
                parts.append(('ahead', p[0][1]))
            else:
                raise Unsupported('look-ahead %r' % (av,))
        elif op is K.ASSERT_NOT:
            direction, p = av
            p = list(p)
            if direction == -1 and len(p) == 1 and p[0][0] is K.LITERAL and top and i == 0:
                not_after = p[0][1]
            elif direction == 1 and len(p) == 1 and p[0][0] in (K.IN, K.LITERAL, K.NOT_LITERAL):
                # (?![...]): the next character is not in the class
                sub = tr([p[0]])[1]
                if sub[0] != 'cls':
                    raise Unsupported('negative look-ahead of %r' % (sub,))
                parts.append(('nahead', sub[1], sub[2]))
            else:
                raise Unsupported('negative assertion %r' % (av,))
        else:
            raise Unsupported('regex op %r' % (op,))
    return not_after, seq_of(parts)


def case_close(r, approx=False):
    """re.IGNORECASE for ASCII letters: every class also accepts the other case.
    `approx`: a superset is good enough (ambiguity analysis): a non-ASCII range stays as it is, plus the ASCII
    letters whose case variants lie in it (U+017F long s, U+212A Kelvin sign)"""
    t = r[0]
    if t == 'cls':
        rs = list(r[2])
        for lo, hi in r[2]:
            if hi >= 0x80:
                if r[1] and lo <= 0x7f:
                    continue
                if approx:
                    if not r[1]:
                        if lo <= 0x17f <= hi:
                            rs += [(115, 115), (83, 83)]
                        if lo <= 0x212a <= hi:
                            rs += [(107, 107), (75, 75)]
                    if lo >= 0x80:
                        continue
                    hi = 0x7f
                else:
                    raise Unsupported('ignore-case over non-ASCII range')
            for c in range(lo, hi + 1):
                ch = chr(c)
                if ch.isalpha():
                    o = ord(ch.swapcase())
                    rs.append((o, o))
        return ('cls', r[1], tuple(sorted(set(rs))))
    if t in ('eps', 'ahead'):
        return r
    if t == 'nahead':
        c = case_close(('cls', r[1], r[2]), approx)
        return ('nahead', c[1], c[2])
    return (t,) + tuple(case_close(x, approx) for x in r[1:])


def regex_to_re(pattern_text, flags=re.U):
    tree = P.parse(pattern_text, flags)
    if tree.state.flags & (re.S | re.M | re.X):
        raise Unsupported('flags')
    # a top-level non-capturing group wrapper is flattened by the parser already
    na, r = tr(tree, top=True)
    if tree.state.flags & re.I:
        r = case_close(r)
    return na, r


def regex_full_to_re(pattern_text, flags=re.U, approx=False):
    """a pattern of the shape ^...$ → Re for the inside (to be used as a full match)"""
    tree = P.parse(pattern_text, flags)
    items = list(tree)
    if not (items and items[0][0] is K.AT and items[0][1] is K.AT_BEGINNING
            and items[-1][0] is K.AT and items[-1][1] in (K.AT_END, K.AT_END_STRING)):
        raise Unsupported('expected a ^...$ or ^...\\Z pattern')
    na, r = tr(items[1:-1], top=True)
    if na is not None:
        raise Unsupported('look-behind')
    if tree.state.flags & re.I:
        r = case_close(r, approx)
    return r


# ---------------------------------------------------------------- emission with sharing

class Emitter:
    def __init__(self, prefix):
        self.prefix = prefix
        self.defs = []          # (name, text)
        self.memo = {}

    def size(self, r):
        if r[0] in ('eps', 'cls', 'ahead', 'nahead'):
            return 1
        return 1 + sum(self.size(x) for x in r[1:] if isinstance(x, tuple) and x and isinstance(x[0], str))

    def emit(self, r):
        if r in self.memo:
            return self.memo[r]
        t = r[0]
        if t == 'eps':
            s = 'Re.eps'
        elif t == 'cls':
            rs = ', '.join('(%d, %d)' % p for p in r[2])
            s = '(Re.cls %s [%s])' % ('true' if r[1] else 'false', rs)
        elif t == 'ahead':
            s = '(Re.ahead %d)' % r[1]
        elif t == 'nahead':
            rs = ', '.join('(%d, %d)' % p for p in r[2])
            s = '(Re.nahead %s [%s])' % ('true' if r[1] else 'false', rs)
        elif t in ('seq', 'alt'):
            s = '(Re.%s %s %s)' % (t, self.emit(r[1]), self.emit(r[2]))
        elif t in ('star', 'opt', 'lazyStar'):
            s = '(Re.%s %s)' % (t, self.emit(r[1]))
        else:
            raise Unsupported(t)
        if len(s) > 60:
            name = '%s%d' % (self.prefix, len(self.defs))
            self.defs.append((name, s))
            s = name
        self.memo[r] = s
        return s


def lean_str(s):
    return '"' + s.replace('\\', '\\\\').replace('"', '\\"') + '"'


def lean_text(s):
    return '[' + ', '.join(str(ord(c)) for c in s) + ']'


def write_if_changed(path, content):
    try:
        old = open(path, encoding='utf-8').read()
    except OSError:
        old = None
    if old != content:
        os.makedirs(os.path.dirname(path), exist_ok=True)
        with open(path, 'w', encoding='utf-8') as f:
            f.write(content)
        return True
    return False


# ---------------------------------------------------------------- Gen/Productions.lean

def gen_productions():
    import css_parser  # noqa: F401
    from css_parser.tokenize2 import Tokenizer
    from css_parser.cssproductions import MACROS, PRODUCTIONS
    from css_parser import helper
    t = Tokenizer()
    expanded = t._expand_macros(MACROS, PRODUCTIONS)
    em = Emitter('r')
    prods = []
    for name, value in expanded:
        na, r = regex_to_re('(?:%s)' % value, re.U)
        prods.append((name, na, em.emit(r)))
    if prods[0][0] != 'BOM':
        raise Unsupported('first production is not BOM')

    def pat_of(subfn):
        # bound method `.sub` of a compiled pattern
        return subfn.__self__.pattern, subfn.__self__.flags

    usub = regex_to_re(*pat_of(Tokenizer.unicodesub))
    clean = regex_to_re(*pat_of(Tokenizer.cleanstring))
    simple = regex_to_re(*pat_of(helper._simpleescapes))
    for nm, (na, _) in (('unicodesub', usub), ('cleanstring', clean), ('simpleescapes', simple)):
        if na is not None:
            raise Unsupported('look-behind in %s' % nm)
    forb_pat = helper._match_forbidden_in_uri.__self__
    forb = regex_to_re(forb_pat.pattern, forb_pat.flags)
    usub_s, clean_s, simple_s, forb_s = (em.emit(x[1]) for x in (usub, clean, simple, forb))

    out = ['-- GENERATED by harness/gen_tables.py from /repo — do not edit',
           'import CssVerif.Model.Tokenizer',
           'namespace CssVerif.Gen', 'open CssVerif', '']
    for name, s in em.defs:
        out.append('def %s : Re := %s' % (name, s))
    out.append('')
    out.append('def bom : Re := %s' % prods[0][2])
    out.append('def prods : List Prod := [')
    rows = []
    for name, na, s in prods[1:]:
        rows.append('  { name := %s, notAfter := %s, re := %s }' % (
            lean_str(name), 'none' if na is None else 'some %d' % na, s))
    out.append(',\n'.join(rows))
    out.append(']')
    kws = sorted(Tokenizer._atkeywords.items())
    out.append('def atkeywords : List (Text × String) := [')
    out.append(',\n'.join('  (%s, %s)' % (lean_text(k), lean_str(v)) for k, v in kws))
    out.append(']')
    out.append('def unicodesub : Re := %s' % usub_s)
    out.append('def cleanstring : Re := %s' % clean_s)
    out.append('def simpleescapes : Re := %s' % simple_s)
    out.append('def forbiddenInUri : Re := %s' % forb_s)
    out.append('''
def tables : Tables :=
  { bom := bom, prods := prods, atkeywords := atkeywords,
    unicodesub := unicodesub, cleanstring := cleanstring, simpleescapes := simpleescapes,
    fastChars := %s,
    escTypes := [%s] }
''' % (lean_text(fast_chars()), ', '.join(lean_str(x) for x in esc_types())))
    out.append('end CssVerif.Gen')
    return '\n'.join(out) + '\n'


def _tokenize_src():
    import ast
    import inspect
    from css_parser import tokenize2
    return ast.parse(inspect.getsource(tokenize2))


def fast_chars():
    """the literal in `if c in ',:;{}>[]':` of Tokenizer.tokenize, read from the AST"""
    import ast
    tree = _tokenize_src()
    for node in ast.walk(tree):
        if (isinstance(node, ast.Compare) and isinstance(node.left, ast.Name) and node.left.id == 'c'
                and len(node.ops) == 1 and isinstance(node.ops[0], ast.In)
                and isinstance(node.comparators[0], ast.Constant)):
            return node.comparators[0].value
    raise Unsupported('fast-path character set not found in tokenize2.py')


def esc_types():
    """the tuple in `if name in ('DIMENSION', 'IDENT', ...)` (types whose value is un-escaped)"""
    import ast
    tree = _tokenize_src()
    for node in ast.walk(tree):
        if (isinstance(node, ast.Compare) and isinstance(node.left, ast.Name) and node.left.id == 'name'
                and len(node.ops) == 1 and isinstance(node.ops[0], ast.In)
                and isinstance(node.comparators[0], ast.Tuple)):
            vals = [e.value for e in node.comparators[0].elts]
            if 'DIMENSION' in vals:
                return vals
    raise Unsupported('escape-type tuple not found in tokenize2.py')


def gen_names():
    """known property names with the DOM attribute the code derives and the property name that
    assigning that attribute actually sets (observed on a real CSSStyleDeclaration)"""
    import logging
    import css_parser
    from css_parser import profiles
    from css_parser.css import cssproperties as cp
    css_parser.log.setLevel(logging.FATAL)
    em = Emitter('n')
    to_dom = regex_to_re(cp._reCSStoDOMname.pattern, cp._reCSStoDOMname.flags)
    to_css = regex_to_re(cp._reDOMtoCSSname.pattern, cp._reDOMtoCSSname.flags)
    if to_dom[0] is not None or to_css[0] is not None:
        raise Unsupported('look-behind in name regexes')
    rows = []
    seen = set()
    for g in profiles.properties:
        for n in profiles.properties[g]:
            if n in seen:
                continue
            seen.add(n)
            d = cp._toDOMname(n)
            st = css_parser.css.CSSStyleDeclaration()
            try:
                setattr(st, d, 'inherit')
                eff = st.item(0)
            except Exception as e:
                eff = '!' + type(e).__name__
            rows.append((n, d, eff))
    out = ['-- GENERATED by harness/gen_tables.py from /repo — do not edit',
           'import CssVerif.Model.Decl', 'namespace CssVerif.Gen', 'open CssVerif CssVerif.Decl', '']
    a, b = em.emit(to_dom[1]), em.emit(to_css[1])
    for name, sdef in em.defs:
        out.append('def %s : Re := %s' % (name, sdef))
    out.append('def aliasRows : List AliasRow := [')
    out.append(',\n'.join('  { css := %s, dom := %s, eff := %s }' % (lean_text(n), lean_text(d), lean_text(e))
                          for n, d, e in rows))
    out.append(']')
    out.append('def nameTables : NameTables := { cssToDom := %s, domToCss := %s, rows := aliasRows }' % (a, b))
    out.append('end CssVerif.Gen')
    return '\n'.join(out) + '\n'


def gen_profiles():
    """the validation patterns of every profile (css_parser.profiles), for the ambiguity obligation of C01"""
    import logging
    import css_parser
    css_parser.log.setLevel(logging.FATAL)
    em = Emitter('v')
    d = css_parser.profile._profilesProperties
    rows = []
    skipped = []
    for name in sorted(d):
        for prop in sorted(d[name]):
            rx = d[name][prop]
            try:
                r = regex_full_to_re(rx.pattern, rx.flags, approx=True)
                rows.append((name, prop, em.emit(r)))
            except Unsupported as e:
                skipped.append('%s/%s: %s' % (name, prop, e))
    out = ['-- GENERATED by harness/gen_tables.py from /repo — do not edit',
           'import CssVerif.Model.Re', 'namespace CssVerif.Gen', 'open CssVerif', '']
    for nm, sdef in em.defs:
        out.append('def %s : Re := %s' % (nm, sdef))
    out.append('def profileRes : List (String × String × Re) := [')
    out.append(',\n'.join('  (%s, %s, %s)' % (lean_str(a), lean_str(b), c) for a, b, c in rows))
    out.append(']')
    out.append('def profileSkipped : List String := [%s]' % ', '.join(lean_str(x) for x in skipped))
    out.append('end CssVerif.Gen')
    return '\n'.join(out) + '\n'


def gen_colors():
    """named colours, the zero-length unit list of do_css_Value, the hex-colour regex"""
    import ast
    import inspect
    import css_parser  # noqa: F401
    from css_parser.css.value import ColorValue
    from css_parser import serialize, prodparser
    from css_parser.css import value as value_mod
    rows = []
    for n, (r, g, b, a) in sorted(ColorValue.COLORS.items()):
        rows.append((n, int(r), int(g), int(b), int(round(a * 1000))))
    units = None
    for node in ast.walk(ast.parse(inspect.getsource(serialize))):
        if (isinstance(node, ast.Compare) and isinstance(node.left, ast.Attribute) and node.left.attr == 'dimension'
                and isinstance(node.ops[0], ast.In) and isinstance(node.comparators[0], ast.Tuple)):
            units = [e.value for e in node.comparators[0].elts]
    if units is None:
        raise Unsupported('zero-length unit tuple not found in serialize.py')
    em = Emitter('c')
    hx_s = em.emit(regex_full_to_re(prodparser.PreDef.reHexcolor.pattern, prodparser.PreDef.reHexcolor.flags))
    out = ['-- GENERATED by harness/gen_tables.py from /repo — do not edit',
           'import CssVerif.Model.Number', 'namespace CssVerif.Gen', 'open CssVerif CssVerif.Color', '']
    for name, sdef in em.defs:
        out.append('def %s : Re := %s' % (name, sdef))
    out.append('def colorRows : List ColorRow := [')
    out.append(',\n'.join('  { name := %s, r := %d, g := %d, b := %d, alpha1000 := %d }' % (lean_text(n), r, g, b, a)
                          for n, r, g, b, a in rows))
    out.append(']')
    out.append('def zeroUnits : List Text := [%s]' % ', '.join(lean_text(u) for u in units))
    out.append('/-- full-match pattern of a hex colour HASH value -/')
    out.append('def hexColorRe : Re := %s' % hx_s)
    strict = list(P.parse(prodparser.PreDef.reHexcolor.pattern))[-1][1] is K.AT_END_STRING and \
        list(P.parse(value_mod.reHexcolor.pattern))[-1][1] is K.AT_END_STRING
    out.append('/-- both copies of the pattern end in \\\\Z (the end of the text), not in $ (which also matches before a final newline) -/')
    out.append('def hexColorStrictEnd : Bool := %s' % ('true' if strict else 'false'))
    out.append('end CssVerif.Gen')
    return '\n'.join(out) + '\n'


GENERATORS = {'Productions.lean': gen_productions, 'Names.lean': gen_names, 'Colors.lean': gen_colors,
              'Profiles.lean': gen_profiles}


def main():
    changed = []
    only = sys.argv[1:]
    for fname, fn in GENERATORS.items():
        if only and fname not in only:
            continue
        content = fn()
        if write_if_changed(os.path.join(GEN, fname), content):
            changed.append(fname)
    print('gen_tables: changed=%s' % ','.join(changed) if changed else 'gen_tables: unchanged')


if __name__ == '__main__':
    try:
        main()
    except Unsupported as e:
        print('gen_tables: UNSUPPORTED %s' % e)
        sys.exit(3)
